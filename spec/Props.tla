------------------------------- MODULE Props -------------------------------
(* The listed properties C02..C16 as TLA+ formulas over the abstract state.

   A formula is either a STATE formula  F(s)  or a STEP formula  F(x)  over one
   step  x = [pre, ev, out, post]  (state before, abstract event, outcome,
   state after) plus the ghost record gh accumulated along the behaviour.
   The same formulas are evaluated
     - by TLC on every reachable state/step of the bounded models (MC_*.tla), and
     - by TLC on every state/step OBSERVED from the real code (Trace.tla).
   `Verdict(name, x, gh)` returns [app |-> the formula's antecedent held (it was
   exercised), ok |-> it evaluated to TRUE]. *)
EXTENDS State

Ok(x)   == x.out.result = "ok"
Kind(x) == x.ev.kind
IsTx(x) == Kind(x) # "Blocks"
Delta(x, a) == BalOf(x.post, a) - BalOf(x.pre, a)
SumDelta(x, S) == SumOver(S, LAMBDA a : Delta(x, a))
Minted(x) == x.post.supply - x.pre.supply

NewOrders(x)  == SelectSeq(x.post.orders, LAMBDA o : ~HasOrder(x.pre, o.id))
GoneOrders(x) == SelectSeq(x.pre.orders, LAMBDA o : ~HasOrder(x.post, o.id))
NewShards(x)  == SelectSeq(x.post.shards, LAMBDA sh : ~HasShard(x.pre, sh.id))
GoneShards(x) == SelectSeq(x.pre.shards, LAMBDA sh : ~HasShard(x.post, sh.id))

EvSize(ev) == IF ev.size = 0 THEN 1 ELSE ev.size

-----------------------------------------------------------------------------
(* C13  referential integrity *)
C13_OrderShardsExist(s) ==
    \A i \in 1..Len(s.orders) : \A j \in 1..Len(s.orders[i].shards) : HasShard(s, s.orders[i].shards[j])
C13_ShardListedByItsOrder(s) ==
    \A i \in 1..Len(s.shards) : LET sh == s.shards[i] IN
        HasOrder(s, sh.order) /\ InSeq(sh.id, OrderOf(s, sh.order).shards)
C13_CompletedShardScheduled(s) ==
    \A i \in 1..Len(s.shards) : LET sh == s.shards[i] IN
        sh.status = SCompleted =>
            \E k \in 1..Len(s.expShardQ) : s.expShardQ[k].h = ShardEnd(sh) /\ InSeq(sh.id, s.expShardQ[k].ids)
C13_AliasBijection(s) ==
    /\ \A i \in 1..Len(s.metas) : Cardinality({k \in 1..Len(s.aliases) : s.aliases[k].data = s.metas[i].data}) = 1
    /\ \A k \in 1..Len(s.aliases) : HasMeta(s, s.aliases[k].data)

(* C14  aggregates equal sums *)
C14_UsedIsSum(s) ==
    /\ \A i \in 1..Len(s.pledges) : LET p == s.pledges[i] IN
          p.used = SumSeq(CompletedShardsOf(s, p.a), LAMBDA sh : sh.size)
    /\ \A i \in 1..Len(s.shards) : s.shards[i].status = SCompleted => HasPledge(s, s.shards[i].sp)
C14_WorkerIsSum(s) ==
    /\ \A i \in 1..Len(s.workers) : LET w == s.workers[i] IN
          LET tot == SumSeq(CompletedShardsOf(s, w.a), LAMBDA sh : sh.size) IN
          w.storage = tot /\ w.income = tot
    /\ \A i \in 1..Len(s.shards) : s.shards[i].status = SCompleted => HasWorker(s, s.shards[i].sp)
C14_ShardPledgedIsSum(s) ==
    \A i \in 1..Len(s.pledges) : LET p == s.pledges[i] IN
        p.shPl = SumSeq(CompletedShardsOf(s, p.a), LAMBDA sh : sh.pledge)
C14_PoolIsSum(s) ==
    /\ s.pool.storage = SumSeq(s.pledges, LAMBDA p : p.cap)
    /\ s.pool.pledged = SumSeq(s.pledges, LAMBDA p : p.capPl)

(* C07 / C06 state parts *)
C07_UsedWithinCap(s) == \A i \in 1..Len(s.pledges) : 0 <= s.pledges[i].used /\ s.pledges[i].used <= s.pledges[i].cap

Undeposited(s) == SelectSeq(s.orders, LAMBDA o : o.status # OCompleted)
C06_OrderEscrow(s) == BalOf(s, "m_order") >= SumSeq(Undeposited(s), LAMBDA o : o.amount)
C04_OrderEscrowExact(s) == BalOf(s, "m_order") = SumSeq(Undeposited(s), LAMBDA o : o.amount)

\* what the market escrow owes, in micro-coins, as a [q, r] pair
WorkerAccrued(s) == MuAdd(MuSumSeq(s.workers, LAMBDA w : w.rew), MuSumSeq(s.workers, LAMBDA w : w.income * (s.h - w.last)))
FutureIncome(s) ==
    MuAdd( MuSumSeq(CompletedShards(s), LAMBDA sh : sh.size * (ShardEnd(sh) - s.h)),
    \* (every single product stays below 2^31; their sums are formed as [q, r] pairs)
    MuAdd( FoldLeft(LAMBDA acc, sh : IF sh.status = SCompleted THEN MuAdd(acc, MuSumSeq(sh.renew, LAMBDA r : sh.size * r.dur)) ELSE acc,
                    [q |-> 0, r |-> 0], s.shards),
           FoldLeft(LAMBDA acc, o : MuAdd(acc, MuSumSeq(o.shards, LAMBDA id :
                        IF HasShard(s, id) /\ ShardOf(s, id).status = SWaiting /\ ShardOf(s, id).order = o.id
                        THEN ShardOf(s, id).size * o.dur ELSE 0)),
                    [q |-> 0, r |-> 0], SelectSeq(s.orders, LAMBDA o : o.status = OCompleted /\ o.op # 3)) ))
MarketOwes(s) == MuAdd(WorkerAccrued(s), FutureIncome(s))
C06_MarketEscrow(s) == MuLeq(MarketOwes(s), [q |-> BalOf(s, "m_market"), r |-> 0])
\* conservation: whatever the market holds beyond what it owes is rounding dust only
C04_NoStuckPayment(s, gh) ==
    MuLeq([q |-> BalOf(s, "m_market"), r |-> 0], MuAdd(MarketOwes(s), [q |-> gh.dustq, r |-> gh.dustr]))

\* storage income is bytes x blocks actually stored: per provider, what its market account has accrued plus what it
\* has claimed equals the ghost ledger built from the observed shard lifetimes (gh.earn), never from the code's counters
EarnOf(gh, a) == IF Has(gh.earn, "a", a) THEN Get(gh.earn, "a", a) ELSE [a |-> a, q |-> 0, r |-> 0, cq |-> 0]
C04_IncomeIsBytesBlocks(s, gh) ==
    /\ \A i \in 1..Len(s.workers) : LET w == s.workers[i]  e == EarnOf(gh, w.a) IN
          MuAdd(MuAdd(MuOf(w.rew), MuOf(w.income * (s.h - w.last))), [q |-> e.cq, r |-> 0]) = [q |-> e.q, r |-> e.r]
    /\ \A i \in 1..Len(gh.earn) : (gh.earn[i].q # 0 \/ gh.earn[i].r # 0) => HasWorker(s, gh.earn[i].a)

PendingMilli(s, p) == s.pool.acc * (p.cap \div Mega) - p.rdebt
ClaimableMilli(s)  == SumSeq(s.pledges, LAMBDA p : IF p.cap > 0 THEN p.rew + PendingMilli(s, p) ELSE p.rew)
C06_NodeEscrow(s) ==
    BalOf(s, "m_node") >= SumSeq(s.pledges, LAMBDA p : p.capPl + p.shPl) - SumSeq(s.pdebts, LAMBDA d : d.amt)
                          + SumSeq(s.pledges, LAMBDA p : (IF p.cap > 0 THEN p.rew + PendingMilli(s, p) ELSE p.rew) \div 1000)
C06_DidEscrow(s) == BalOf(s, "m_did") >= SumSeq(s.didBal, LAMBDA d : d.amt)

(* C08 *)
C08_MintedEqualsCounter(s, gh) == s.supply - gh.supply0 = s.pool.reward - gh.reward0
\* (outside the exact fragment the projected values are floors of the real decimals: flooring a provider's reward DEBT
\* overstates what he can claim by less than 1/1000 coin, so one milli-coin of slack per provider is allowed there)
C08_ClaimsWithinMinted(s, gh) ==
    ClaimableMilli(s) + 1000 * gh.claimedNode <= 1000 * (s.pool.reward - gh.reward0) + gh.claimable0
                                                 + (IF s.inexact = <<>> THEN 0 ELSE Len(s.pledges))
\* rewards are shared per pledged byte: the divisor of the per-block share is the capacity actually pledged
C08_ShareBaseIsPledgedCapacity(s) == s.pool.storage = SumSeq(s.pledges, LAMBDA p : p.cap)

(* C11 state parts *)
C11_ModelOutlivesShards(s) ==
    \A i \in 1..Len(s.shards) : LET sh == s.shards[i] IN
        (sh.status = SCompleted /\ ShardPaidEnd(sh) >= s.h /\ HasOrder(s, sh.order)) =>
            /\ HasMeta(s, OrderOf(s, sh.order).data)
            /\ LET m == MetaOf(s, OrderOf(s, sh.order).data) IN m.created + m.dur >= ShardPaidEnd(sh)
C11_NothingOverdue(s) ==
    /\ \A i \in 1..Len(s.shards) : s.shards[i].status = SCompleted => ShardEnd(s.shards[i]) >= s.h
    /\ \A i \in 1..Len(s.metas) : s.metas[i].created + s.metas[i].dur >= s.h

\* a hand-over in progress has something to take over: every migrating shard is listed together with a stored shard of the
\* provider it migrates from (otherwise it is a task nobody can complete, unreachable from every schedule)
C13_HandOverHasSource(s) ==
    \A i \in 1..Len(s.shards) : LET m == s.shards[i] IN
        m.status = SMigrating =>
            \E k \in 1..Len(s.orders) : /\ InSeq(m.id, s.orders[k].shards)
                                        /\ \E q \in 1..Len(s.orders[k].shards) :
                                              LET id == s.orders[k].shards[q] IN
                                              HasShard(s, id) /\ ShardOf(s, id).status = SCompleted /\ ShardOf(s, id).sp = m.from

\* "... its income stops": a provider that stores nothing (any more) earns nothing and has no stored bytes on its market account
C11_IncomeStops(s) ==
    \A i \in 1..Len(s.workers) : LET w == s.workers[i] IN
        CompletedShardsOf(s, w.a) = <<>> => (w.storage = 0 /\ w.income = 0)

\* "when a model's last shard goes, the order and the data model disappear too": no fully stored order outlives its data
\* model (an order is a reference to the model it stored a version of: one without a model is a dangling reference)
C11_OrderGoesWithModel(s) ==
    \A i \in 1..Len(s.orders) : s.orders[i].status = OCompleted => HasMeta(s, s.orders[i].data)

(* C12 state part: a handed-over, unfinished order is always scheduled for re-examination *)
Unfinished(s, o) ==
    \/ o.status = ODataReady
    \/ (o.status = OCompleted /\ o.op # 3 /\
        \E j \in 1..Len(o.shards) : HasShard(s, o.shards[j]) /\ ShardOf(s, o.shards[j]).status = SWaiting
                                     /\ ShardOf(s, o.shards[j]).order = o.id)
Scheduled(s, id) == \E k \in 1..Len(s.timeoutQ) : s.timeoutQ[k].h >= s.h /\ InSeq(id, s.timeoutQ[k].ids)
C12_Rescheduled(s) == \A i \in 1..Len(s.orders) : Unfinished(s, s.orders[i]) => Scheduled(s, s.orders[i].id)

-----------------------------------------------------------------------------
(* STEP formulas *)

\* C04: a successful Store charges exactly the quoted price, once, to one account, into the order escrow
C04_ChargeExact_app(x) == Ok(x) /\ Kind(x) = "Store"
C04_ChargeExact(x) ==
    LET amt == Price(EvSize(x.ev), x.ev.replica, x.ev.dur)
        payers == {a \in DOMAIN x.pre.bal : Delta(x, a) < 0}
    IN /\ Len(NewOrders(x)) = 1
       /\ NewOrders(x)[1].amount = amt
       /\ Delta(x, "m_order") = amt
       /\ Cardinality(payers) = 1
       /\ \A a \in payers : Delta(x, a) = -amt
       /\ \A a \in DOMAIN x.pre.bal : a \notin payers /\ a # "m_order" => Delta(x, a) = 0

\* C04/C07 closure: outside reward claims, client money only moves between clients and the order/market/did
\* escrows, and provider money only between providers and the node escrow (+ minting).
Disjoint(x) == (NodeAccs(x.pre) \cup NodeAccs(x.post)) \cap (ClientAccs(x.pre) \cup ClientAccs(x.post)) = {}
Closure_app(x) == Kind(x) \notin {"Claim", "Delegate", "Undelegate", "Redelegate", "Send", "PayAddr"} /\ Disjoint(x)
C04_ClientEscrowClosed(x) ==
    SumDelta(x, ClientAccs(x.pre) \cup ClientAccs(x.post)) + Delta(x, "m_order") + Delta(x, "m_market") + Delta(x, "m_did") = 0
C07_ProviderEscrowClosed(x) ==
    SumDelta(x, NodeAccs(x.pre) \cup NodeAccs(x.post)) + Delta(x, "m_node") - Minted(x) = 0

\* C07: independent collateral ledger. gh.net[a] is the net flow of coins between provider a and the node escrow for shard
\* collateral, taken from observed BANK deltas only; what a provider has paid in (plus what it still owes as recorded debt)
\* is exactly the collateral of the shards it holds - so every coin taken for a shard comes back when the shard ends.
NetOf(gh, a) == IF Has(gh.net, "a", a) THEN Get(gh.net, "a", a).v ELSE 0
C07_CollateralLedger(s, gh) ==
    \A a \in NodeAccs(s) : a \notin ClientAccs(s) =>
        DebtOf(s, a) - NetOf(gh, a) = SumSeq(CompletedShardsOf(s, a), LAMBDA sh : sh.pledge)
\* C07: per provider, the balance moves exactly against its collateral records net of recorded debt
Owed(s, a) == (IF HasPledge(s, a) THEN PledgeOf(s, a).capPl + PledgeOf(s, a).shPl ELSE 0) - DebtOf(s, a)
C07_PledgeBackToPledger(x) ==
    \A a \in NodeAccs(x.pre) \cup NodeAccs(x.post) : Delta(x, a) = Owed(x.pre, a) - Owed(x.post, a)

\* C04: refunds reach only the payer / owner payment address of an order that ended or shrank in this step
Shrunk(x) == SelectSeq(x.pre.orders, LAMBDA o : HasOrder(x.post, o.id) /\ OrderOf(x.post, o.id).amount < o.amount)
EndedOrShrunk(x) == GoneOrders(x) \o Shrunk(x)
RefundDids(x) == UNION {{o.owner, o.paydid} : o \in Rng(EndedOrShrunk(x))}
RefundTargets(x) == {PayOf(x.pre, d) : d \in {d2 \in RefundDids(x) : d2 # "" /\ HasPay(x.pre, d2)}}
C04_RefundToPayerOnly_app(x) == Closure_app(x) /\ \E a \in ClientAccs(x.pre) : Delta(x, a) > 0
C04_RefundToPayerOnly(x) == \A a \in ClientAccs(x.pre) : Delta(x, a) > 0 => a \in RefundTargets(x)

\* C05: cancellation of an order nobody stored anything for: full refund, clean rollback
C05_app(x) == Ok(x) /\ Kind(x) = "Cancel" /\ HasOrder(x.pre, x.ev.order)
C05_FullRefund(x) ==
    LET o == OrderOf(x.pre, x.ev.order)
        payer == PayOf(x.pre, IF o.paydid # "" THEN o.paydid ELSE o.owner)
    IN /\ HasPay(x.pre, IF o.paydid # "" THEN o.paydid ELSE o.owner)
       /\ Delta(x, payer) = o.amount
       /\ \A a \in DOMAIN x.pre.bal : a \notin {payer, "m_order"} => Delta(x, a) = 0
RolledBack(x, o) ==
    /\ ~HasOrder(x.post, o.id)
    /\ \A j \in 1..Len(o.shards) : ~HasShard(x.post, o.shards[j])
    /\ x.post.pledges = x.pre.pledges /\ x.post.workers = x.pre.workers
    /\ IF ~HasMeta(x.pre, o.data) THEN TRUE
       ELSE LET m == MetaOf(x.pre, o.data) IN
            IF m.order # o.id THEN HasMeta(x.post, o.data) /\ MetaOf(x.post, o.data).commits = m.commits
            ELSE IF m.commits = <<>> THEN ~HasMeta(x.post, o.data) /\ ~Has(x.post.aliases, "data", o.data)
            ELSE /\ HasMeta(x.post, o.data)
                 /\ LET m2 == MetaOf(x.post, o.data) IN
                      /\ m2.status = MComplete /\ m2.commit = m.commits[Len(m.commits)].c
                      /\ m2.commits = m.commits /\ m2.orders = m.orders
                      /\ m2.order = m.orders[Len(m.orders)]
                      /\ m2.owner = m.owner /\ m2.rw = m.rw /\ m2.ro = m.ro
C05_CleanRollback(x) == RolledBack(x, OrderOf(x.pre, x.ev.order))
\* timeouts: orders that were never completed and vanish during block processing
TimedOut(x) == SelectSeq(GoneOrders(x), LAMBDA o : o.status # OCompleted)
C05_Timeout_app(x) == Kind(x) = "Blocks" /\ Len(TimedOut(x)) > 0 /\ Disjoint(x)
C05_TimeoutRefund(x) ==
    \A a \in ClientAccs(x.pre) :
        Delta(x, a) >= SumSeq(SelectSeq(TimedOut(x), LAMBDA o : PayOf(x.pre, IF o.paydid # "" THEN o.paydid ELSE o.owner) = a),
                              LAMBDA o : o.amount)
C05_TimeoutRollback(x) ==
    \A i \in 1..Len(TimedOut(x)) : LET o == TimedOut(x)[i] IN
        /\ \A j \in 1..Len(o.shards) : ~HasShard(x.post, o.shards[j])

\* C06: nothing the records entitle someone to fails for lack of escrowed funds
C06_EntitledNeverFails_app(x) == Kind(x) \in {"Claim", "RemoveVstorage", "Cancel", "Terminate", "Blocks"}
C06_EntitledNeverFails(x) ==
    ~(x.out.result \in {"err", "PANIC"} /\ ((x.out.space = "sdk" /\ x.out.code = 5) \/ x.out.insufficient))

\* C08
C08_MintOnlyInBlocks(x) == IsTx(x) => Minted(x) = 0
C08_MintBound_app(x) == Kind(x) = "Blocks"
\* (the cap of one block: the subsidy at the age the step STARTS with - ages only grow, subsidies only shrink)
AgeOf(cfg, s) == IF cfg.rewardAge >= 256 THEN 256
                 ELSE IF cfg.toNextAge > 0 /\ s.pool.reward >= cfg.toNextAge THEN cfg.rewardAge + 1 ELSE cfg.rewardAge
SubsidyOf(cfg, s) == IF AgeOf(cfg, s) >= 31 THEN 0 ELSE cfg.blockReward \div (2 ^ AgeOf(cfg, s))
RewardCap(cfg, s) ==
    IF s.pool.pledged = 0 THEN 0
    ELSE IF s.pool.pledged < cfg.baseline
         THEN Min2(SubsidyOf(cfg, s), ((s.pool.pledged * cfg.apyNum) \div cfg.apyDen) \div (cfg.halvingPeriod \div 2))
         ELSE SubsidyOf(cfg, s)
C08_MintBound(x, cfg) ==
    /\ Minted(x) >= 0
    /\ Minted(x) <= x.out.blocks * RewardCap(cfg, x.pre)
    /\ (x.pre.pool.pledged = 0 => Minted(x) = 0)
    /\ x.post.pool.reward - x.pre.pool.reward = Minted(x)
C08_ClaimExact_app(x) == Ok(x) /\ Kind(x) = "Claim" /\ x.pre.inexact = <<>> /\ x.post.inexact = <<>>
C08_ClaimExact(x) ==
    LET a == x.ev.creator
        p == PledgeOf(x.pre, a)
        blockPart == (IF p.cap > 0 THEN p.rew + PendingMilli(x.pre, p) ELSE p.rew)
        w == IF HasWorker(x.pre, a) THEN WorkerOf(x.pre, a) ELSE [rew |-> 0, income |-> 0, last |-> x.pre.h]
        workPart == MuOf(w.rew + w.income * (x.pre.h - w.last)).q
        repaid == DebtOf(x.pre, a) - DebtOf(x.post, a)
    IN /\ Delta(x, a) = (blockPart \div 1000) + workPart - repaid
       /\ repaid >= 0
       /\ PledgeOf(x.post, a).rew = blockPart % 1000
       /\ x.out.claimed = Delta(x, a)
       /\ \A b \in DOMAIN x.pre.bal : b \notin {a, "m_node", "m_market"} => Delta(x, b) = 0
       /\ -Delta(x, "m_node") <= blockPart \div 1000
       /\ -Delta(x, "m_market") <= workPart

\* C09: a model changes only through a request signed by its owner / a read-write grantee.
\* Who is a grantee is NOT read from the model's own rw list but from the ghost: the list of the owner's last ACCEPTED
\* permission update (gh.grants) - a revocation that was accepted but not applied must not leave the old grantee in power.
GrantOf(g, d) == IF Has(g.grants, "data", d) THEN Get(g.grants, "data", d).rw ELSE <<>>
\* The principal is the DID whose key REALLY signed (State!Principal: a did:key, or the sid DID whose version list holds
\* the signing document) - not what the request's header claims.
Allowed(pre, m, ev, kinds, g) ==
    LET p == Principal(g.cfg, pre, ev) IN
    /\ ev.sigmode = "ok" /\ p # "" /\ p = ev.owner
    /\ IF "rw" \in kinds THEN p = m.owner \/ InSeq(p, GrantOf(g, m.data)) ELSE p = m.owner
\* an accepted permission update takes effect exactly as signed
C09_PermissionApplied(x) ==
    /\ (Kind(x) = "Permission" /\ Ok(x)) =>
          HasMeta(x.post, x.ev.data) /\ MetaOf(x.post, x.ev.data).rw = x.ev.rw /\ MetaOf(x.post, x.ev.data).ro = x.ev.ro
    \* ... and a model is born with no access right its owner did not sign for in the creating request
    /\ \A i \in 1..Len(x.post.metas) : LET m == x.post.metas[i] IN
          ~HasMeta(x.pre, m.data) => (Kind(x) = "Store" => Rng(m.rw) \subseteq Rng(x.ev.rw) /\ Rng(m.ro) \subseteq Rng(x.ev.ro))
MetaChanged(x, d) ==
    \/ HasMeta(x.pre, d) # HasMeta(x.post, d)
    \/ (HasMeta(x.pre, d) /\ MetaOf(x.pre, d) # MetaOf(x.post, d))
AllData(x) == {x.pre.metas[i].data : i \in 1..Len(x.pre.metas)} \cup {x.post.metas[i].data : i \in 1..Len(x.post.metas)}
OrderData(s, id) == IF HasOrder(s, id) THEN {OrderOf(s, id).data} ELSE {}
C09_app(x) == IsTx(x) /\ \E d \in AllData(x) : MetaChanged(x, d)
C09_ModelChangeAuthorised(x, g) ==
    \A d \in AllData(x) : MetaChanged(x, d) =>
        CASE Kind(x) = "Store" ->
                /\ d = x.ev.data
                /\ IF HasMeta(x.pre, d) THEN Allowed(x.pre, MetaOf(x.pre, d), x.ev, {"rw"}, g)
                   ELSE x.ev.sigmode = "ok" /\ Principal(g.cfg, x.pre, x.ev) = x.ev.owner /\ MetaOf(x.post, d).owner = x.ev.owner
          [] Kind(x) = "Terminate"  -> d = x.ev.data /\ Allowed(x.pre, MetaOf(x.pre, d), x.ev, {"rw"}, g)
          [] Kind(x) = "Renew"      -> InSeq(d, x.ev.datas) /\ HasMeta(x.pre, d) /\ Allowed(x.pre, MetaOf(x.pre, d), x.ev, {}, g)
          [] Kind(x) = "Permission" -> d = x.ev.data /\ Allowed(x.pre, MetaOf(x.pre, d), x.ev, {}, g)
          [] Kind(x) \in {"Complete", "Cancel"} -> d \in OrderData(x.pre, x.ev.order)
          [] OTHER -> FALSE

\* C10
C10_CompleteByAssignee_app(x) == Ok(x) /\ Kind(x) = "Complete"
C10_CompleteByAssignee(x) ==
    \A i \in 1..Len(x.post.shards) : LET sh == x.post.shards[i] IN
        (sh.status = SCompleted /\ (~HasShard(x.pre, sh.id) \/ ShardOf(x.pre, sh.id).status # SCompleted)) =>
            /\ HasShard(x.pre, sh.id) /\ ShardOf(x.pre, sh.id).sp = sh.sp
            /\ x.ev.provider = sh.sp /\ ActsFor(x.pre, x.ev.creator, sh.sp)
C10_NodeSelfOnly_app(x) == Kind(x) \in {"Create", "Reset", "AddVstorage", "RemoveVstorage", "Claim"}
C10_NodeSelfOnly(x) ==
    LET a == x.ev.creator IN
    /\ Del(x.post.nodes, "a", a) = Del(x.pre.nodes, "a", a)
    /\ Del(x.post.pledges, "a", a) = Del(x.pre.pledges, "a", a)
    /\ Del(x.post.pdebts, "a", a) = Del(x.pre.pdebts, "a", a)
    /\ Del(x.post.workers, "a", a) = Del(x.pre.workers, "a", a)
    /\ \A b \in DOMAIN x.pre.bal : b \notin {a, "m_node", "m_market"} => Delta(x, b) = 0
    /\ x.post.orders = x.pre.orders /\ x.post.shards = x.pre.shards /\ x.post.metas = x.pre.metas
C10_CancelByCreator(x) ==
    LET o == OrderOf(x.pre, x.ev.order) IN
    \/ x.ev.creator = o.creator
    \/ (ActsFor(x.pre, x.ev.creator, o.provider) /\ ActsFor(x.pre, o.creator, o.provider))
C10_PayerConsent(x) ==
    LET payers == {a \in DOMAIN x.pre.bal : Delta(x, a) < 0} IN
    \A a \in payers :
        IF x.ev.paydid # "" THEN HasPay(x.pre, x.ev.paydid) /\ a = PayOf(x.pre, x.ev.paydid) /\ a = x.ev.creator
        ELSE /\ HasPay(x.pre, x.ev.owner) /\ a = PayOf(x.pre, x.ev.owner)
             /\ \/ (x.ev.provider = x.ev.gw /\ ActsFor(x.pre, x.ev.creator, x.ev.gw))
                \* "an account bound to the owner": bound in the account->did table AND still listed by the did (a rotation
                \* that dropped the account must have taken both away)
                \/ (/\ Has(x.pre.bindings, "acc", x.ev.creator) /\ Get(x.pre.bindings, "acc", x.ev.creator).did = x.ev.owner
                    /\ \E i \in 1..Len(x.pre.accLists) : x.pre.accLists[i].did = x.ev.owner
                          /\ \E j \in 1..Len(x.pre.accIds) : x.pre.accIds[j].acc = x.ev.creator /\ InSeq(x.pre.accIds[j].ad, x.pre.accLists[i].accs))

\* a renewal is charged to the DID that signed it (the model's owner), never to a grantee who happened to make the last update
C10_RenewPayerIsSigner_app(x) == Ok(x) /\ Kind(x) = "Renew"
C10_RenewPayerIsSigner(x) ==
    \A a \in ClientAccs(x.pre) : Delta(x, a) < 0 => HasPay(x.pre, x.ev.owner) /\ a = PayOf(x.pre, x.ev.owner)

\* C11: stored shards stay until their paid end unless an authorised request removes them
ShardKept(x, sh) ==
    /\ HasShard(x.post, sh.id)
    /\ LET t == ShardOf(x.post, sh.id) IN t.status = SCompleted /\ t.sp = sh.sp /\ ShardPaidEnd(t) >= ShardPaidEnd(sh)
C11_KeptWhilePaid(x) ==
    \A i \in 1..Len(x.pre.shards) : LET sh == x.pre.shards[i] IN
        sh.status = SCompleted =>
            IF Kind(x) = "Blocks" THEN (ShardPaidEnd(sh) >= x.post.h => ShardKept(x, sh))
            ELSE ShardKept(x, sh)
                 \/ (Kind(x) = "Terminate" /\ Ok(x))
                 \/ (Kind(x) = "Complete" /\ Ok(x) /\
                        \/ (HasOrder(x.pre, x.ev.order) /\ OrderOf(x.pre, x.ev.order).op = 2)
                        \/ \E k \in 1..Len(x.pre.shards) :
                              /\ x.pre.shards[k].status = SMigrating /\ x.pre.shards[k].from = sh.sp /\ x.pre.shards[k].sp = x.ev.provider
                              \* the hand-over keeps the paid term: the receiving shard ends when the old one would have
                              /\ HasShard(x.post, x.pre.shards[k].id)
                              /\ ShardOf(x.post, x.pre.shards[k].id).status = SCompleted
                              /\ ShardPaidEnd(ShardOf(x.post, x.pre.shards[k].id)) = ShardPaidEnd(sh)
                              /\ ShardOf(x.post, x.pre.shards[k].id).size = sh.size)
C11_ReleasedAtEnd_app(x) == Kind(x) = "Blocks" /\ x.out.result = "ok"
C11_ReleasedAtEnd(x) ==
    \A i \in 1..Len(x.pre.shards) : LET sh == x.pre.shards[i] IN
        (sh.status = SCompleted /\ ShardPaidEnd(sh) < x.post.h) => ~HasShard(x.post, sh.id)

\* C12: within its lifetime a handed-over order always accounts for every paid replica: each is stored, being
\* stored (waiting for its current assignee) or was cancelled with the replica count reduced and refunded
LiveShards(s, o) == SelectSeq(o.shards, LAMBDA id : HasShard(s, id) /\ ShardOf(s, id).status \in {SWaiting, SCompleted})
C12_ReplicasAccounted(s) ==
    \A i \in 1..Len(s.orders) : LET o == s.orders[i] IN
        (o.status \in {ODataReady, OCompleted} /\ o.op \in {1, 2} /\ s.h <= o.created + o.dur) => Len(LiveShards(s, o)) = o.replica

\* C12: the timeout machinery leaves fully stored orders alone
FullyStored(s, o) ==
    o.status = OCompleted /\ \A j \in 1..Len(o.shards) : HasShard(s, o.shards[j]) => ShardOf(s, o.shards[j]).status \in {SCompleted, SMigrating}
C12_StoredOrderUntouched(x) ==
    Kind(x) = "Blocks" =>
    \A i \in 1..Len(x.pre.orders) : LET o == x.pre.orders[i] IN
        (FullyStored(x.pre, o) /\ HasOrder(x.post, o.id)) =>
            OrderOf(x.post, o.id).amount = o.amount /\ OrderOf(x.post, o.id).replica = o.replica
\* ... and never cancels a hand-over in progress on it: a migrating shard whose source is still stored survives block processing
C12_MigrationUntouched(x) ==
    Kind(x) = "Blocks" =>
    \A i \in 1..Len(x.pre.shards) : LET m == x.pre.shards[i] IN
        (m.status = SMigrating /\ HasOrder(x.pre, m.order) /\ FullyStored(x.pre, OrderOf(x.pre, m.order))
         /\ \E k \in 1..Len(x.post.shards) : x.post.shards[k].sp = m.from /\ x.post.shards[k].status = SCompleted
                                             /\ x.post.shards[k].size = m.size /\ HasShard(x.pre, x.post.shards[k].id)
                                             /\ HasOrder(x.post, m.order) /\ InSeq(x.post.shards[k].id, OrderOf(x.post, m.order).shards))
        => HasShard(x.post, m.id)
\* bounded liveness: nothing handed over stays unresolved beyond its last possible examination
\* (counted from the height at which the order was handed to providers - ghost `handed`: an order submitted by the owner's
\* own account waits, un-timed, until its gateway declares itself Ready)
HandedAt(g, o) == IF Has(g.handed, "id", o.id) THEN Get(g.handed, "id", o.id).h ELSE o.created
C12_ResolvedByBound(s, g) ==
    \A i \in 1..Len(s.orders) : LET o == s.orders[i] IN
        Unfinished(s, o) => s.h <= HandedAt(g, o) + Max2(o.dur, 12 * o.timeout) + 1
\* ... and long before the end of a long term: a stalled shard goes to ANOTHER provider each time - every provider takes at most
\* one turn on an order - so after the ten intervals of waiting and one turn for every node there is, nobody is left to find and
\* the unfinished part is given up (an order that keeps being "re-assigned" beyond that is being handed to providers it
\* already has)
C12_GivenUpInTime(s, g) ==
    \A i \in 1..Len(s.orders) : LET o == s.orders[i] IN
        Unfinished(s, o) => s.h <= HandedAt(g, o) + (12 + Len(s.nodes)) * o.timeout + 1

\* C15: newly assigned providers are distinct, not already involved, and eligible (tx steps)
Eligible(s, a, size) ==
    /\ HasNode(s, a) /\ HasBits(NodeOf(s, a).status, SPStatus) /\ NodeOf(s, a).rep >= RepFloor
    /\ HasPledge(s, a) /\ PledgeOf(s, a).cap - PledgeOf(s, a).used >= size
C15_app(x) == Len(NewShards(x)) > 0
C15_Placement(x) ==
    /\ \A i, j \in 1..Len(NewShards(x)) :
          (i # j /\ NewShards(x)[i].order = NewShards(x)[j].order) => NewShards(x)[i].sp # NewShards(x)[j].sp
    /\ \A i \in 1..Len(NewShards(x)) : LET n == NewShards(x)[i] IN
          /\ HasOrder(x.pre, n.order) =>
                \A k \in 1..Len(x.pre.shards) :
                    InSeq(x.pre.shards[k].id, OrderOf(x.pre, n.order).shards) => x.pre.shards[k].sp # n.sp
          /\ (IsTx(x) /\ (HasOrder(x.post, n.order) => OrderOf(x.post, n.order).op # 2)) => Eligible(x.pre, n.sp, n.size)
    /\ (Kind(x) = "Store" /\ Ok(x) /\ Len(NewShards(x)) > 0 => Len(NewShards(x)) = x.ev.replica)

\* C16
C16_IdsFresh(x) ==
    /\ x.post.oc >= x.pre.oc /\ x.post.sc >= x.pre.sc
    /\ \A i \in 1..Len(NewOrders(x)) : NewOrders(x)[i].id >= x.pre.oc /\ NewOrders(x)[i].id < x.post.oc
    /\ \A i \in 1..Len(NewShards(x)) : NewShards(x)[i].id >= x.pre.sc /\ NewShards(x)[i].id < x.post.sc
    /\ NoDup([i \in 1..Len(x.post.orders) |-> x.post.orders[i].id])
    /\ NoDup([i \in 1..Len(x.post.shards) |-> x.post.shards[i].id])
    /\ x.post.oc - x.pre.oc = Len(NewOrders(x)) + Cardinality({id \in x.pre.oc..(x.post.oc - 1) : ~HasOrder(x.post, id)})
C16_Update_app(x) == Ok(x) /\ Kind(x) = "Store" /\ HasMeta(x.pre, x.ev.data)
\* (the model's own status field says so, and no order for this data id is in fact still under way)
C16_OneInFlight(x) ==
    /\ MetaOf(x.pre, x.ev.data).status = MComplete
    /\ \A i \in 1..Len(x.pre.orders) : LET o == x.pre.orders[i] IN
          \* (an order left over from an earlier, terminated model of the same data id is not an update of this one)
          (o.data = x.ev.data /\ o.created >= MetaOf(x.pre, x.ev.data).created /\ MetaOf(x.pre, x.ev.data).orders # <<>>
           /\ o.id >= MetaOf(x.pre, x.ev.data).orders[1]) => o.status = OCompleted
\* the latest COMMITTED version is the last entry of the model's history (not merely what its commit field says: an
\* abandoned update must not leave its never-committed id there for the next update to build on)
LatestCommitted(m) == IF m.commits = <<>> THEN m.commit ELSE m.commits[Len(m.commits)].c
C16_BaseIsLatest(x) == x.ev.cseg[1] = LatestCommitted(MetaOf(x.pre, x.ev.data))
C16_HistoryChain(x) ==
    \A i \in 1..Len(x.pre.metas) : LET m == x.pre.metas[i] IN
        HasMeta(x.post, m.data) =>
            LET c2 == MetaOf(x.post, m.data).commits IN
            \/ c2 = m.commits
            \/ (Len(c2) = Len(m.commits) + 1 /\ SubSeq(c2, 1, Len(m.commits)) = m.commits)
            \/ (Len(c2) = Len(m.commits) /\ Len(c2) > 0 /\ SubSeq(c2, 1, Len(c2) - 1) = SubSeq(m.commits, 1, Len(c2) - 1)
                /\ Kind(x) = "Complete" /\ HasOrder(x.pre, x.ev.order) /\ OrderOf(x.pre, x.ev.order).op = 2)

\* an order commits its version ONCE, at the moment it completes: the history of a model changes only on the delivery of a
\* shard of an order of that model that was not completed before the step (a late replica of an order that has long been
\* committed, arriving while the NEXT update is in flight, commits nothing), no order appears twice among the model's orders,
\* and the step leaves the in-flight mark alone unless it completes, abandons or creates the order the mark names.
\* StaleFirstVersion(x, m): the step delivers a shard of a still unfinished FIRST-VERSION order (no base: its commit is the data
\* id) of a model that already has a committed history - the loser of a race between two creations of one data id, completing
\* late. What the code does then is judged by C16_FirstVersionOnce (known finding KF-C16-stale-first-version), everything else
\* by C16_CommittedOnce.
StaleFirstVersion(x, m) ==
    /\ Kind(x) = "Complete" /\ HasOrder(x.pre, x.ev.order)
    /\ LET o == OrderOf(x.pre, x.ev.order) IN
          o.data = m.data /\ o.status # OCompleted /\ o.commit = o.data /\ m.commits # <<>> /\ o.id # m.order
HistoryStepOk(x, m) ==
    LET m2 == MetaOf(x.post, m.data) IN
    /\ (m2.commits # m.commits =>
            /\ Kind(x) = "Complete" /\ HasOrder(x.pre, x.ev.order)
            /\ OrderOf(x.pre, x.ev.order).data = m.data
            /\ OrderOf(x.pre, x.ev.order).status # OCompleted)
    /\ (NoDup(m.orders) => NoDup(m2.orders))
    \* a model waiting for an update (in-flight mark set) is settled only by a step that completes or removes that very order
    \* (a model with a committed history: two first versions of one NEW data id racing each other are not updates)
    /\ (m.status # MComplete /\ m2.status = MComplete /\ m2.created = m.created /\ HasOrder(x.pre, m.order) /\ m.commits # <<>> =>
            \/ ~HasOrder(x.post, m.order)
            \/ OrderOf(x.post, m.order).status = OCompleted
            \/ OrderOf(x.post, m.order).status # OrderOf(x.pre, m.order).status)
C16_CommittedOnce(x) ==
    \A i \in 1..Len(x.pre.metas) : LET m == x.pre.metas[i] IN
        HasMeta(x.post, m.data) /\ ~StaleFirstVersion(x, m) => HistoryStepOk(x, m)
\* the late loser of a creation race leaves the model's history, latest version and in-flight mark alone
C16_FirstVersionOnce(x) ==
    \A i \in 1..Len(x.pre.metas) : LET m == x.pre.metas[i] IN
        HasMeta(x.post, m.data) /\ StaleFirstVersion(x, m) =>
            LET m2 == MetaOf(x.post, m.data) IN m2.commits = m.commits /\ m2.commit = m.commit /\ m2.status = m.status

\* C17: DID registry integrity
IsKeyDid(cfg, d) == InSeq(d, cfg.didOrder)
BindingsOf(s, d) == {s.bindings[i].acc : i \in {j \in 1..Len(s.bindings) : s.bindings[j].did = d}}
C17_BindingFunctional(s) == NoDup([i \in 1..Len(s.bindings) |-> s.bindings[i].acc])
C17_ListMatchesBinding(s) ==
    /\ \A i \in 1..Len(s.accLists) : LET l == s.accLists[i] IN
          /\ \A k \in 1..Len(l.accs) : Has(s.accIds, "ad", l.accs[k])
          /\ {Get(s.accIds, "ad", l.accs[k]).acc : k \in 1..Len(l.accs)} = BindingsOf(s, l.did)
          /\ NoDup(l.accs)
    /\ \A i \in 1..Len(s.bindings) : Has(s.accLists, "did", s.bindings[i].did)
C17_SidPayAddrBound(s, cfg) ==
    \A i \in 1..Len(s.pay) : ~IsKeyDid(cfg, s.pay[i].did) => s.pay[i].a \in BindingsOf(s, s.pay[i].did)
C17_KidInjective(s, cfg) ==
    /\ NoDup([i \in 1..Len(s.kids) |-> s.kids[i].a]) /\ NoDup([i \in 1..Len(s.kids) |-> s.kids[i].did])
    /\ NoDup([i \in 1..Len(s.pay) |-> s.pay[i].did])
    \* an address is linked to at most one key DID: no two key DIDs are paid from the same address, and the address's one
    \* link names the key DID it pays for
    /\ \A i, j \in 1..Len(s.pay) : (i < j /\ IsKeyDid(cfg, s.pay[i].did) /\ IsKeyDid(cfg, s.pay[j].did)) => s.pay[i].a # s.pay[j].a
    /\ \A i \in 1..Len(s.kids) : HasPay(s, s.kids[i].did) /\ PayOf(s, s.kids[i].did) = s.kids[i].a
NewBindings(x) == {b \in Rng(x.post.bindings) : ~(b \in Rng(x.pre.bindings))}
GoneBindings(x) == {b \in Rng(x.pre.bindings) : ~(b \in Rng(x.post.bindings))}
C17_BindingProven(x) ==
    /\ \A b \in NewBindings(x) :
          /\ Kind(x) = "Binding" /\ Ok(x) /\ b.acc = x.ev.acc /\ b.did = x.ev.did
          /\ x.ev.sigmode = "ok" /\ x.ev.amount + 900 >= 0
          /\ (Has(x.pre.versions, "doc", b.did) => Has(x.pre.bindings, "acc", x.ev.creator) /\ Get(x.pre.bindings, "acc", x.ev.creator).did = b.did)
    /\ \A b \in GoneBindings(x) :
          /\ Kind(x) = "DidUpdate" /\ Ok(x) /\ b.did = x.ev.did
          /\ Has(x.pre.bindings, "acc", x.ev.creator) /\ Get(x.pre.bindings, "acc", x.ev.creator).did = b.did
C17_PayAddrChange(x, cfg) ==
    /\ \A i \in 1..Len(x.pre.pay) : LET p == x.pre.pay[i] IN
          IF IsKeyDid(cfg, p.did) THEN p \in Rng(x.post.pay)          \* a key DID's payment address never changes
          ELSE HasPay(x.post, p.did) /\
               (PayOf(x.post, p.did) # p.a => Kind(x) = "PayAddrSid" /\ Ok(x) /\ x.ev.did = p.did /\ PayOf(x.post, p.did) = x.ev.acc
                                              /\ Has(x.pre.bindings, "acc", x.ev.creator) /\ Get(x.pre.bindings, "acc", x.ev.creator).did = p.did)
    /\ \A i \in 1..Len(x.post.pay) : LET p == x.post.pay[i] IN
          (~HasPay(x.pre, p.did) /\ IsKeyDid(cfg, p.did)) => Kind(x) = "PayAddr" /\ Ok(x) /\ x.ev.creator = p.a /\ x.ev.did = p.did

\* C19: fault reports
FaultKinds == {"ReportFaults", "RecoverFaults"}
ChangedFaults(x) == {f \in Rng(x.pre.faults) \cup Rng(x.post.faults) : ~(f \in Rng(x.pre.faults) /\ f \in Rng(x.post.faults))}
C19_app(x) == Rng(x.pre.faults) # Rng(x.post.faults) \/ Rng(x.pre.faultIdx) # Rng(x.post.faultIdx)
C19_OnlyFishmen(x, cfg) ==
    /\ Ok(x) /\ Kind(x) \in FaultKinds /\ HasNode(x.pre, x.ev.creator)
    /\ \/ InSeq(x.ev.creator, cfg.fishmen)
       \/ (Kind(x) = "RecoverFaults" /\ x.ev.creator = x.ev.provider /\ \A f \in ChangedFaults(x) : f.provider = x.ev.creator)
    /\ \A f \in ChangedFaults(x) : f.provider = x.ev.provider
C19_FaultNamesLiveShard(x) ==
    \A f \in Rng(x.post.faults) : ~Has(x.pre.faults, "id", f.id) =>
        /\ HasShard(x.pre, f.shard) /\ ShardOf(x.pre, f.shard).sp = f.provider /\ ShardEnd(ShardOf(x.pre, f.shard)) > x.pre.h
        /\ ShardOf(x.pre, f.shard).status = SCompleted       \* "actually holds": stored, not merely assigned or being handed over
        /\ HasOrder(x.pre, f.order) /\ InSeq(f.shard, OrderOf(x.pre, f.order).shards) /\ OrderOf(x.pre, f.order).data = f.data
        /\ HasMeta(x.pre, f.data)
C19_NoCollateralEffect(x) ==
    /\ x.post.bal = x.pre.bal /\ x.post.orders = x.pre.orders /\ x.post.shards = x.pre.shards /\ x.post.metas = x.pre.metas
    /\ x.post.nodes = x.pre.nodes /\ x.post.workers = x.pre.workers /\ x.post.pdebts = x.pre.pdebts /\ x.post.pool = x.pre.pool
    /\ Del(x.post.pledges, "a", x.ev.provider) = Del(x.pre.pledges, "a", x.ev.provider)
C19_PenaltyBounded(x) ==
    HasPledge(x.pre, x.ev.provider) =>
        /\ HasPledge(x.post, x.ev.provider)
        /\ LET p == PledgeOf(x.pre, x.ev.provider)  q == PledgeOf(x.post, x.ev.provider) IN
             /\ q.rew <= p.rew /\ q.rew >= 0 /\ q.capPl <= p.capPl /\ q.capPl >= 0 /\ q.shPl = p.shPl /\ q.cap = p.cap /\ q.used = p.used

\* C20: the super role is held only while its requirements hold (status loss by offline detection is not a listed trigger)
SharesOf(s, d, v) == LET r == SelectSeq(s.delegs, LAMBDA x : x.d = d /\ x.v = v) IN IF r = <<>> THEN 0 ELSE r[1].shares
SuperOk(s, cfg, n) ==
    /\ HasPledge(s, n.a) /\ PledgeOf(s, n.a).cap >= cfg.vstorThreshold
    /\ n.val # "" /\ Has(s.vals, "v", n.val)
    /\ SharesOf(s, n.a, n.val) * cfg.shareDen >= Get(s.vals, "v", n.val).shares * cfg.shareNum
    /\ SharesOf(s, n.a, n.val) > 0
C20_SuperImpliesRequirements(s, cfg) ==
    \A i \in 1..Len(s.nodes) : s.nodes[i].role = 1 => SuperOk(s, cfg, s.nodes[i])
C20_PromotionNeedsStatus(x, cfg) ==
    \A i \in 1..Len(x.post.nodes) : LET n == x.post.nodes[i] IN
        (n.role = 1 /\ (~HasNode(x.pre, n.a) \/ NodeOf(x.pre, n.a).role = 0)) => HasBits(n.status, SuperReq) /\ SuperOk(x.post, cfg, n)
\* C03: no process-global residue at the end of a transaction or block (only observable with the verif hooks)
C03_NoResidue(s) == s.vol \in {"", "0"}

\* C02: blocks never panic/hang; transactions never hang
C02_NoHalt(x) == x.out.result \notin {"PANIC", "HANG"}
=============================================================================
