------------------------------ MODULE Replicas ------------------------------
(* Deployment-level model for C01 (replica determinism) and C03 (crash-restart
   equivalence): two replicas A and B execute the same stream of blocks.  B, and only
   B, additionally serves non-consensus calls (CheckTx, Simulate, Query), is restarted
   from its database, and runs late (its wall clock is ahead).  A is the reference
   that does nothing but consensus.

   What a block does is abstracted to what matters for these two properties: whether
   the outcome of a transaction reads anything that is not committed state, i.e.
     - vol   : a process-global written by one transaction/hook and read by a later
               one (x/node/keeper/hooks.go sharesBeforeModified).  It survives the
               rollback of a failed / simulated transaction but not a restart;
     - clock : the replica's wall clock (x/did Binding/Update freshness).
   Stream[i] is the kind of block i:
     "plain"    nothing special
     "setfail"  a transaction that writes vol and then fails (rolled back, vol stays)
     "use"      a transaction of ANOTHER delegation whose hook may read vol
     "fresh"    a transaction whose proof timestamp lies between the two clocks
   Design switches (constants) select the code's design:
     Keyed      vol is only read by the delegation that wrote it, in the same transaction
     BlockTime  freshness is judged by the block header time
   TLC checks Agreement over every interleaving; with the switches off it must be
   violated (the witness that the model expresses the hazard).  Every behaviour's
   schedule of B's extra actions is dumped and executed on two REAL replicas. *)
EXTENDS Integers, Sequences, TLC, Json

CONSTANTS Stream, Keyed, BlockTime, MaxExtra, Dump,
          Planned   \* generator mode: the gaps at which B acts are drawn up front, so that simulation spreads them evenly

VARIABLES hA, hB,       \* committed heights
          outA, outB,   \* per-block outcomes (what must agree)
          volA, volB,   \* process-global: 0 = clear, 1 = stale value of another delegation
          late,         \* B's clock is ahead of A's by more than the freshness margin
          extra,        \* number of extra actions B has taken
          sched,        \* B's schedule: sequence of [gap |-> blocks B had committed, op |-> ...]
          plan          \* (generator mode) non-decreasing gaps for B's extra actions
vars == <<hA, hB, outA, outB, volA, volB, late, extra, sched, plan>>

N == Len(Stream)

\* outcome of block kind k on a replica with process-global vol and clock lateness
Outcome(k, vol, isLate) ==
    CASE k = "use"   -> IF Keyed THEN "hook(0)" ELSE IF vol = 1 THEN "hook(stale)" ELSE "hook(0)"
      [] k = "fresh" -> IF BlockTime THEN "accept" ELSE IF isLate THEN "reject" ELSE "accept"
      [] OTHER       -> "ok"
\* the process-global after executing block kind k (or a non-consensus run of its transaction)
VolAfter(k, vol) ==
    CASE k = "setfail" -> 1
      [] k = "use"     -> 0          \* the hook clears it at its end
      [] OTHER         -> vol

Init ==
    /\ hA = 0 /\ hB = 0 /\ outA = <<>> /\ outB = <<>> /\ volA = 0 /\ volB = 0
    /\ late = FALSE /\ extra = 0 /\ sched = <<>>
    /\ plan \in IF Planned THEN {p \in [1..MaxExtra -> 0..(N - 1)] : \A i \in 1..(MaxExtra - 1) : p[i] <= p[i + 1]} ELSE {<<>>}

DeliverA ==
    /\ hA < N
    /\ outA' = Append(outA, Outcome(Stream[hA + 1], volA, FALSE))
    /\ volA' = VolAfter(Stream[hA + 1], volA)
    /\ hA' = hA + 1
    /\ UNCHANGED <<hB, outB, volB, late, extra, sched, plan>>

DeliverB ==
    /\ hB < N
    /\ ~(Planned /\ extra < MaxExtra /\ plan[extra + 1] = hB)     \* generator mode: act where planned before moving on
    /\ outB' = Append(outB, Outcome(Stream[hB + 1], volB, late))
    /\ volB' = VolAfter(Stream[hB + 1], volB)
    /\ hB' = hB + 1
    /\ UNCHANGED <<hA, outA, volA, late, extra, sched, plan>>

Extra(op) ==
    /\ extra < MaxExtra /\ hB < N
    /\ (Planned => plan[extra + 1] = hB)
    /\ extra' = extra + 1
    /\ sched' = Append(sched, [gap |-> hB, op |-> op])
    /\ UNCHANGED <<hA, hB, outA, outB, volA, plan>>

\* non-consensus executions of the failing transaction: effects on the store are dropped, vol stays
CheckTxB  == Extra("checktx")  /\ volB' = 1 /\ UNCHANGED late
SimulateB == Extra("simulate") /\ volB' = 1 /\ UNCHANGED late
QueryB    == Extra("query")    /\ UNCHANGED <<volB, late>>
RestartB  == Extra("restart")  /\ hB > 0 /\ volB' = 0 /\ UNCHANGED late
DelayB    == Extra("delay")    /\ ~late /\ late' = TRUE /\ UNCHANGED volB

Next == DeliverA \/ DeliverB \/ CheckTxB \/ SimulateB \/ QueryB \/ RestartB \/ DelayB
Spec == Init /\ [][Next]_vars

\* C01 / C03: same blocks, same results, whatever else B did
Agreement == \A i \in 1..N : (i <= hA /\ i <= hB) => outA[i] = outB[i]

\* simulation mode: dump each finished behaviour's schedule
DumpSchedule == (Dump /\ hB = N /\ hA = N) => JsonSerialize("sched_" \o ToString(TLCGet("stats").traces) \o ".json", sched)
=============================================================================
