------------------------------- MODULE Ghost -------------------------------
(* Ghost (history) record carried along a behaviour, and the catalogue of property
   formulas with their dispatch.  Shared by the trace specification (Trace.tla, steps
   observed on the real code) and the bounded models (MC.tla, steps of Chain!Apply). *)
EXTENDS Props

GhostInit(g) ==
    [supply0 |-> g.post.supply, reward0 |-> g.post.pool.reward, claimable0 |-> ClaimableMilli(g.post),
     claimedNode |-> 0, dustq |-> 0, dustr |-> 0, cfg |-> g.cfg, start |-> TRUE,
     handed |-> [i \in 1..Len(SelectSeq(g.post.orders, LAMBDA o : o.status # OPending)) |->
                   LET o == SelectSeq(g.post.orders, LAMBDA o : o.status # OPending)[i] IN [id |-> o.id, h |-> o.created]],
     net |-> [i \in 1..Len(g.post.pledges) |->
                [a |-> g.post.pledges[i].a,
                 v |-> DebtOf(g.post, g.post.pledges[i].a) - SumSeq(CompletedShardsOf(g.post, g.post.pledges[i].a), LAMBDA sh : sh.pledge)]],
     grants |-> [i \in 1..Len(g.post.metas) |-> [data |-> g.post.metas[i].data, rw |-> g.post.metas[i].rw]],
     earn |-> [i \in 1..Len(g.post.workers) |->
                 LET w == g.post.workers[i]  m == MuAdd(MuOf(w.rew), MuOf(w.income * (g.post.h - w.last)))
                 IN [a |-> w.a, q |-> m.q, r |-> m.r, cq |-> 0]]]

OrderDust(o) == o.amount * Mega - o.size * o.replica * o.dur
GhostStep(g, x) ==
    LET nd == MuSumSeq(SelectSeq(NewOrders(x), LAMBDA o : o.replica > 0), LAMBDA o : Max2(0, OrderDust(o)))
        wd == Len(SelectSeq(GoneOrders(x), LAMBDA o : o.status = OCompleted))
              + Len(SelectSeq(x.pre.orders, LAMBDA o : HasOrder(x.post, o.id) /\ (OrderOf(x.post, o.id).amount < o.amount \/ OrderOf(x.post, o.id).replica < o.replica)))
        d2 == MuAdd([q |-> g.dustq, r |-> g.dustr], MuAdd(nd, [q |-> wd, r |-> 0]))
        \* bytes x blocks stored during this step, per provider (only block steps let time pass)
        earnAdd(acc, sh) ==
            LET e == EarnOf([earn |-> acc], sh.sp)
                blocks == Max2(0, Min2(ShardPaidEnd(sh), x.post.h) - x.pre.h)
                m == MuAdd([q |-> e.q, r |-> e.r], MuOf(sh.size * blocks))
            IN Put(acc, "a", [e EXCEPT !.q = m.q, !.r = m.r])
        earn1 == IF Kind(x) = "Blocks" THEN FoldLeft(earnAdd, g.earn, CompletedShards(x.pre)) ELSE g.earn
        earn2 == IF Kind(x) = "Claim" /\ Ok(x)
                 THEN LET e == EarnOf([earn |-> earn1], x.ev.creator) IN Put(earn1, "a", [e EXCEPT !.cq = @ - Delta(x, "m_market")])
                 ELSE earn1
        \* read-write grants as last signed by the owner and accepted; a newly created model starts with none
        created == SelectSeq(x.post.metas, LAMBDA m : ~HasMeta(x.pre, m.data))
        gr1 == FoldLeft(LAMBDA acc, m : Put(acc, "data", [data |-> m.data, rw |-> <<>>]), g.grants, created)
        gr2 == IF Kind(x) = "Permission" /\ Ok(x) /\ x.ev.sigmode = "ok" /\ Principal(g.cfg, x.pre, x.ev) = x.ev.owner /\ HasMeta(x.pre, x.ev.data)
                  /\ MetaOf(x.pre, x.ev.data).owner = x.ev.owner
               THEN Put(gr1, "data", [data |-> x.ev.data, rw |-> x.ev.rw]) ELSE gr1
        \* shard-collateral flows between providers and the node escrow, from bank deltas: every step except capacity
        \* pledges (Add/RemoveVstorage), plain transfers and staking; in a Claim only the debt it repaid counts (as paid in)
        accs == NodeAccs(x.pre) \cup NodeAccs(x.post)
        netStep(acc, a) ==
            LET d == IF Kind(x) \in {"AddVstorage", "RemoveVstorage", "Send", "Delegate", "Undelegate", "Redelegate", "PayAddr"} THEN 0
                     ELSE IF Kind(x) = "Claim" THEN -(DebtOf(x.pre, a) - DebtOf(x.post, a))
                     ELSE Delta(x, a)
            IN IF d = 0 /\ ~Has(acc, "a", a) THEN acc ELSE Put(acc, "a", [a |-> a, v |-> NetOf([net |-> acc], a) + d])
        net2 == FoldLeft(netStep, g.net, SetToSeq(accs))
        \* hand-over heights: an order seen for the first time with shards assigned (status other than pending)
        hnd1 == SelectSeq(g.handed, LAMBDA e : HasOrder(x.post, e.id))
        hnd2 == hnd1 \o [i \in 1..Len(SelectSeq(x.post.orders, LAMBDA o : o.status # OPending /\ ~Has(hnd1, "id", o.id))) |->
                          [id |-> SelectSeq(x.post.orders, LAMBDA o : o.status # OPending /\ ~Has(hnd1, "id", o.id))[i].id, h |-> x.pre.h]]
    IN [g EXCEPT !.handed = hnd2, !.net = net2, !.grants = gr2, !.earn = earn2, !.claimedNode = @ + (IF Kind(x) = "Claim" /\ Ok(x) THEN -Delta(x, "m_node") ELSE 0),
                 !.dustq = d2.q, !.dustr = d2.r, !.start = FALSE]

\* ---------------------------------------------------------------------------
Names == <<
  "C02_NoHalt",
  "C04_ChargeExact", "C04_ClientEscrowClosed", "C04_RefundToPayerOnly", "C04_OrderEscrowExact", "C04_NoStuckPayment", "C04_IncomeIsBytesBlocks",
  "C05_FullRefund", "C05_CleanRollback", "C05_TimeoutRefund", "C05_TimeoutRollback",
  "C06_OrderEscrow", "C06_MarketEscrow", "C06_NodeEscrow", "C06_DidEscrow", "C06_EntitledNeverFails",
  "C07_UsedWithinCap", "C07_ProviderEscrowClosed", "C07_PledgeBackToPledger", "C07_CollateralLedger",
  "C08_MintedEqualsCounter", "C08_ClaimsWithinMinted", "C08_ShareBaseIsPledgedCapacity", "C08_MintOnlyInBlocks", "C08_MintBound", "C08_ClaimExact",
  "C09_ModelChangeAuthorised", "C09_PermissionApplied",
  "C10_CompleteByAssignee", "C10_NodeSelfOnly", "C10_CancelByCreator", "C10_PayerConsent", "C10_RenewPayerIsSigner",
  "C11_KeptWhilePaid", "C11_ReleasedAtEnd", "C11_ModelOutlivesShards", "C11_NothingOverdue", "C11_OrderGoesWithModel", "C11_IncomeStops",
  "C12_Rescheduled", "C12_StoredOrderUntouched", "C12_ResolvedByBound", "C12_GivenUpInTime", "C12_ReplicasAccounted", "C12_MigrationUntouched",
  "C13_OrderShardsExist", "C13_ShardListedByItsOrder", "C13_CompletedShardScheduled", "C13_AliasBijection", "C13_HandOverHasSource",
  "C14_UsedIsSum", "C14_WorkerIsSum", "C14_ShardPledgedIsSum", "C14_PoolIsSum",
  "C15_Placement",
  "C17_BindingFunctional", "C17_ListMatchesBinding", "C17_SidPayAddrBound", "C17_KidInjective", "C17_BindingProven", "C17_PayAddrChange",
  "C19_OnlyFishmen", "C19_FaultNamesLiveShard", "C19_NoCollateralEffect", "C19_PenaltyBounded",
  "C20_SuperImpliesRequirements", "C20_PromotionNeedsStatus",
  "C16_IdsFresh", "C16_OneInFlight", "C16_BaseIsLatest", "C16_HistoryChain", "C16_CommittedOnce", "C16_FirstVersionOnce" >>

V(app, ok) == [app |-> app, ok |-> ~app \/ ok]

Verdict(name, x, g) ==
  LET s == x.post IN
  CASE name = "C02_NoHalt"               -> V(TRUE, C02_NoHalt(x))
    [] name = "C04_ChargeExact"          -> V(C04_ChargeExact_app(x), C04_ChargeExact(x))
    [] name = "C04_ClientEscrowClosed"   -> V(Closure_app(x), C04_ClientEscrowClosed(x))
    [] name = "C04_RefundToPayerOnly"    -> V(C04_RefundToPayerOnly_app(x), C04_RefundToPayerOnly(x))
    [] name = "C04_OrderEscrowExact"     -> V(TRUE, C04_OrderEscrowExact(s))
    [] name = "C04_NoStuckPayment"       -> V(TRUE, C04_NoStuckPayment(s, g))
    [] name = "C04_IncomeIsBytesBlocks"  -> V(x.out.result = "ok" \/ IsTx(x), C04_IncomeIsBytesBlocks(s, g))
    [] name = "C05_FullRefund"           -> V(C05_app(x), C05_FullRefund(x))
    [] name = "C05_CleanRollback"        -> V(C05_app(x), C05_CleanRollback(x))
    [] name = "C05_TimeoutRefund"        -> V(C05_Timeout_app(x), C05_TimeoutRefund(x))
    [] name = "C05_TimeoutRollback"      -> V(C05_Timeout_app(x), C05_TimeoutRollback(x))
    [] name = "C06_OrderEscrow"          -> V(TRUE, C06_OrderEscrow(s))
    [] name = "C06_MarketEscrow"         -> V(TRUE, C06_MarketEscrow(s))
    [] name = "C06_NodeEscrow"           -> V(s.inexact = <<>>, C06_NodeEscrow(s))
    [] name = "C06_DidEscrow"            -> V(TRUE, C06_DidEscrow(s))
    [] name = "C06_EntitledNeverFails"   -> V(C06_EntitledNeverFails_app(x), C06_EntitledNeverFails(x))
    [] name = "C07_UsedWithinCap"        -> V(TRUE, C07_UsedWithinCap(s))
    [] name = "C07_ProviderEscrowClosed" -> V(Closure_app(x), C07_ProviderEscrowClosed(x))
    [] name = "C07_PledgeBackToPledger"  -> V(Closure_app(x), C07_PledgeBackToPledger(x))
    [] name = "C07_CollateralLedger"     -> V(Disjoint(x), C07_CollateralLedger(s, g))
    [] name = "C08_MintedEqualsCounter"  -> V(TRUE, C08_MintedEqualsCounter(s, g))
    [] name = "C08_ClaimsWithinMinted"   -> V(TRUE, C08_ClaimsWithinMinted(s, g))
    [] name = "C08_ShareBaseIsPledgedCapacity" -> V(TRUE, C08_ShareBaseIsPledgedCapacity(s))
    [] name = "C08_MintOnlyInBlocks"     -> V(IsTx(x), C08_MintOnlyInBlocks(x))
    [] name = "C08_MintBound"            -> V(C08_MintBound_app(x), C08_MintBound(x, g.cfg))
    [] name = "C08_ClaimExact"           -> V(C08_ClaimExact_app(x), C08_ClaimExact(x))
    [] name = "C09_ModelChangeAuthorised"-> V(C09_app(x), C09_ModelChangeAuthorised(x, g))
    [] name = "C09_PermissionApplied"    -> V((Kind(x) = "Permission" \/ Kind(x) = "Store") /\ Ok(x), C09_PermissionApplied(x))
    [] name = "C10_CompleteByAssignee"   -> V(C10_CompleteByAssignee_app(x), C10_CompleteByAssignee(x))
    [] name = "C10_NodeSelfOnly"         -> V(C10_NodeSelfOnly_app(x), C10_NodeSelfOnly(x))
    [] name = "C10_CancelByCreator"      -> V(C05_app(x), C10_CancelByCreator(x))
    [] name = "C10_PayerConsent"         -> V(C04_ChargeExact_app(x), C10_PayerConsent(x))
    [] name = "C10_RenewPayerIsSigner"   -> V(C10_RenewPayerIsSigner_app(x), C10_RenewPayerIsSigner(x))
    [] name = "C11_KeptWhilePaid"        -> V(TRUE, C11_KeptWhilePaid(x))
    [] name = "C11_ReleasedAtEnd"        -> V(C11_ReleasedAtEnd_app(x), C11_ReleasedAtEnd(x))
    [] name = "C11_ModelOutlivesShards"  -> V(TRUE, C11_ModelOutlivesShards(s))
    [] name = "C11_NothingOverdue"       -> V(TRUE, C11_NothingOverdue(s))
    [] name = "C11_OrderGoesWithModel"   -> V(TRUE, C11_OrderGoesWithModel(s))
    [] name = "C11_IncomeStops"          -> V(TRUE, C11_IncomeStops(s))
    [] name = "C12_Rescheduled"          -> V(TRUE, C12_Rescheduled(s))
    [] name = "C12_StoredOrderUntouched" -> V(Kind(x) = "Blocks", C12_StoredOrderUntouched(x))
    [] name = "C12_ResolvedByBound"      -> V(TRUE, C12_ResolvedByBound(s, g))
    [] name = "C12_GivenUpInTime"        -> V(TRUE, C12_GivenUpInTime(s, g))
    [] name = "C12_ReplicasAccounted"    -> V(TRUE, C12_ReplicasAccounted(s))
    [] name = "C12_MigrationUntouched"   -> V(Kind(x) = "Blocks", C12_MigrationUntouched(x))
    [] name = "C13_OrderShardsExist"     -> V(TRUE, C13_OrderShardsExist(s))
    [] name = "C13_ShardListedByItsOrder"-> V(TRUE, C13_ShardListedByItsOrder(s))
    [] name = "C13_CompletedShardScheduled" -> V(TRUE, C13_CompletedShardScheduled(s))
    [] name = "C13_AliasBijection"       -> V(TRUE, C13_AliasBijection(s))
    [] name = "C13_HandOverHasSource"    -> V(TRUE, C13_HandOverHasSource(s))
    [] name = "C14_UsedIsSum"            -> V(TRUE, C14_UsedIsSum(s))
    [] name = "C14_WorkerIsSum"          -> V(TRUE, C14_WorkerIsSum(s))
    [] name = "C14_ShardPledgedIsSum"    -> V(TRUE, C14_ShardPledgedIsSum(s))
    [] name = "C14_PoolIsSum"            -> V(TRUE, C14_PoolIsSum(s))
    [] name = "C15_Placement"            -> V(C15_app(x), C15_Placement(x))
    [] name = "C17_BindingFunctional"    -> V(TRUE, C17_BindingFunctional(s))
    [] name = "C17_ListMatchesBinding"   -> V(TRUE, C17_ListMatchesBinding(s))
    [] name = "C17_SidPayAddrBound"      -> V(TRUE, C17_SidPayAddrBound(s, g.cfg))
    [] name = "C17_KidInjective"         -> V(TRUE, C17_KidInjective(s, g.cfg))
    [] name = "C17_BindingProven"        -> V(IsTx(x), C17_BindingProven(x))
    [] name = "C17_PayAddrChange"        -> V(IsTx(x), C17_PayAddrChange(x, g.cfg))
    [] name = "C19_OnlyFishmen"          -> V(C19_app(x), C19_OnlyFishmen(x, g.cfg))
    [] name = "C19_FaultNamesLiveShard"  -> V(C19_app(x), C19_FaultNamesLiveShard(x))
    [] name = "C19_NoCollateralEffect"   -> V(Kind(x) \in FaultKinds, C19_NoCollateralEffect(x))
    [] name = "C19_PenaltyBounded"       -> V(Kind(x) \in FaultKinds, C19_PenaltyBounded(x))
    [] name = "C20_SuperImpliesRequirements" -> V(TRUE, C20_SuperImpliesRequirements(s, g.cfg))
    [] name = "C20_PromotionNeedsStatus" -> V(IsTx(x), C20_PromotionNeedsStatus(x, g.cfg))
    [] name = "C16_IdsFresh"             -> V(TRUE, C16_IdsFresh(x))
    [] name = "C16_OneInFlight"          -> V(C16_Update_app(x), C16_OneInFlight(x))
    [] name = "C16_BaseIsLatest"         -> V(C16_Update_app(x), C16_BaseIsLatest(x))
    [] name = "C16_HistoryChain"         -> V(TRUE, C16_HistoryChain(x))
    [] name = "C16_CommittedOnce"        -> V(TRUE, C16_CommittedOnce(x))
    [] name = "C16_FirstVersionOnce"     -> V(Kind(x) = "Complete", C16_FirstVersionOnce(x))


\* all formulas of the catalogue hold on step x with ghost g
FailedNames(x, g) == {Names[k] : k \in {j \in 1..Len(Names) : ~Verdict(Names[j], x, g).ok}}
=============================================================================
