SPECIFICATION Spec
CONSTANTS
  GenesisFile = "genesis.json"
  Family = "timeout"
  MinDuration = 3600
  MaxTries = 10
  MaxH = 100000
  MaxOC = 3
  MaxSC = 40
  MaxEvents = 9
  Sizes = {1000}
  Durs = {3600}
  Timeouts = {300, 1800, 3600}
  Replicas = {2, 3}
INVARIANT AllFormulasHold
CONSTRAINT Bounded
VIEW View
CHECK_DEADLOCK FALSE
