SPECIFICATION Spec
CONSTANTS
  GenesisFile = "genesis.json"
  Family = "stagger"
  MinDuration = 3600
  MaxTries = 10
  MaxH = 100000
  MaxOC = 6
  MaxSC = 12
  MaxEvents = 10
  Sizes = {1000}
  Durs = {3600}
  Timeouts = {300, 1800, 3600}
  Replicas = {2, 3}
INVARIANT AllFormulasHold
CONSTRAINT Bounded
VIEW View
CHECK_DEADLOCK FALSE
