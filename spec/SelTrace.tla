------------------------------ MODULE SelTrace ------------------------------
(* Function-level conformance and C15 formulas for provider selection.  Every line of
   the case file is one call of the REAL NodeKeeper.RandomSP ("sel") or RandomIndex
   ("ri") on a crafted population; TLC checks that
     - the call returned (C02: the selection loops terminate),
     - the result equals what Chain!RandomSP / Chain!RandomIndex compute (exact conformance),
     - the observed result satisfies the C15 formulas (distinct, not ignored, eligible,
       at most `count`). *)
EXTENDS Chain, Json

CONSTANT CaseFile
Cases == ndJsonDeserialize(CaseFile)

VARIABLE l
Bump(i) == TLCSet(i, TLCGet(i) + 1)

W(c) == [nodes |-> c.nodes, pledges |-> c.pledges, round |-> c.round, seed |-> c.seed]

EligibleIn(c, a) == HasNode(W(c), a) /\ NodeOk(W(c), NodeOf(W(c), a), c.size)
C15_Distinct(c)    == NoDup(c.out.sps)
C15_NotIgnored(c)  == \A i \in 1..Len(c.out.sps) : ~InSeq(c.out.sps[i], c.ignore)
C15_Eligible(c)    == \A i \in 1..Len(c.out.sps) : EligibleIn(c, c.out.sps[i])
C15_AtMostCount(c) == Len(c.out.sps) <= Max2(c.count, 0) \/ (c.count <= 0 /\ Len(c.out.sps) <= Cardinality({a \in Rng([i \in 1..Len(c.nodes) |-> c.nodes[i].a]) : TRUE}))

RECURSIVE FloorLog2(_)
FloorLog2(q) == IF q <= 1 THEN 0 ELSE 1 + FloorLog2(q \div 2)
\* x/node/abci.go GetRewardAge with num/den of the total emission minted: floor(log2(floor(total / remaining)));
\* once everything is minted no subsidy may survive the shift (and the call must still return: it runs in BeginBlock)
AgeOk(c) == IF c.count >= c.total THEN c.out.age >= 64 ELSE c.out.age = FloorLog2(c.total \div (c.total - c.count))

Names == <<"C02_RewardAgeTotal", "C02_SelectionTerminates", "C15_Distinct", "C15_NotIgnored", "C15_Eligible", "C15_AtMostCount", "Conf_RandomSP", "Conf_RandomIndex">>

Check(c, i) ==
    LET fails ==
        IF c.kind = "age" THEN (IF c.out.result # "ok" \/ ~AgeOk(c) THEN {"C02_RewardAgeTotal"} ELSE {})
        ELSE IF c.out.result # "ok" THEN {"C02_SelectionTerminates"}
        ELSE IF c.kind = "ri" THEN
            (IF RandomIndex(c.seed, c.total, c.count) # c.out.idx THEN {"Conf_RandomIndex"} ELSE {})
            \cup (IF ~NoDup(c.out.idx) \/ \E k \in 1..Len(c.out.idx) : c.out.idx[k] < 0 \/ c.out.idx[k] >= c.total THEN {"C15_Distinct"} ELSE {})
        ELSE
            LET r == RandomSP(W(c), c.count, c.ignore, c.size) IN
            (IF r.sps # c.out.sps \/ r.w.round # c.out.round THEN {"Conf_RandomSP"} ELSE {})
            \cup (IF ~C15_Distinct(c) THEN {"C15_Distinct"} ELSE {})
            \cup (IF ~C15_NotIgnored(c) THEN {"C15_NotIgnored"} ELSE {})
            \cup (IF ~C15_Eligible(c) THEN {"C15_Eligible"} ELSE {})
            \cup (IF c.count > 0 /\ Len(c.out.sps) > c.count THEN {"C15_AtMostCount"} ELSE {})
    IN \A k \in 1..Len(Names) :
          /\ Bump(2 * k - 1)
          /\ (Names[k] \in fails => Bump(2 * k) /\ PrintT(<<"VIOLATED", Names[k], i, i, c.kind>>))

Init == l = 1 /\ \A k \in 1..(2 * Len(Names)) : TLCSet(k, 0)
Next == l < Len(Cases) /\ l' = l + 1
Spec == Init /\ [][Next]_l
Checked == Check(Cases[l], l)
Consumed ==
    /\ \A k \in 1..Len(Names) : PrintT(<<"COUNT", Names[k], TLCGet(2 * k - 1), TLCGet(2 * k)>>)
    /\ PrintT(<<"CONSUMED", TLCGet("stats").diameter, Len(Cases)>>)
    /\ TLCGet("stats").diameter = Len(Cases)
=============================================================================
