SPECIFICATION Spec
CONSTANTS
  GenesisFile = "genesis.json"
  Family = "gen"
  MinDuration = 3600
  MaxTries = 10
  MaxH = 1000000
  MaxOC = 1000
  MaxSC = 1000
  MaxEvents = 40
  Sizes = {1000, 10000}
  Durs = {3600, 3601, 7200}
  Timeouts = {5, 1800, 3600}
  Replicas = {1, 2, 3}
CONSTRAINT DumpBehaviour
CHECK_DEADLOCK FALSE
