SPECIFICATION Spec
CONSTANTS
  GenesisFile = "genesis.json"
  Family = "capacity"
  MinDuration = 3600
  MaxTries = 10
  MaxH = 100000
  MaxOC = 4
  MaxSC = 4
  MaxEvents = 5
  Sizes = {1000}
  Durs = {3600}
  Timeouts = {1800}
  Replicas = {1, 2}
INVARIANT AllFormulasHold
CONSTRAINT Bounded
VIEW View
CHECK_DEADLOCK FALSE
