SPECIFICATION Spec
CONSTANTS
  GenesisFile = "genesis.json"
  Family = "pay"
  MinDuration = 2
  MaxTries = 2
  MaxH = 7
  MaxOC = 3
  MaxSC = 4
  MaxEvents = 9
  Sizes = {400000}
  Durs = {2, 3}
  Timeouts = {1}
  Replicas = {1, 2}
INVARIANT AllFormulasHold
CONSTRAINT Bounded
VIEW View
CHECK_DEADLOCK FALSE
