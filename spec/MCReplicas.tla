----------------------------- MODULE MCReplicas -----------------------------
EXTENDS Replicas
\* the block stream the replica engine concretises (lib/verif/replicas.py: BASE_STREAM)
StreamDef == <<"plain", "plain", "plain", "plain", "plain", "setfail", "use", "fresh", "plain", "plain">>
=============================================================================
