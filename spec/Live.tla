-------------------------------- MODULE Live --------------------------------
(* C12 as a genuine temporal property, checked by TLC under fairness (no state constraint, no VIEW):

       every order that was handed to providers is EVENTUALLY settled - fully stored, or its unfinished part cancelled and
       refunded - whatever the assigned providers do,

   over ALL patterns of silence: time passes (weak fairness on the block step: the chain keeps producing blocks), but no
   provider is ever obliged to complete anything (no fairness on Complete). The transition function is Chain!Apply, the same
   one the traces of the real code are checked against; the initial states are the real genesis state, the setup of MC.tla and
   one or two orders with every combination of term, timeout and replica count of the configuration.

   The state space is finite without a bound: nothing is scheduled any more once the stored data has expired, and the block
   step jumps from one scheduled height to the next. *)
EXTENDS MC

CONSTANT UpdOps     \* operations of the updates the owner may submit in between: {} (none), {1} (new version), {1, 2} (and force-push)

LiveStore(d, du, r, t) ==
    [E0 EXCEPT !.kind = "Store", !.creator = Gateway, !.provider = Gateway, !.gw = Gateway, !.owner = "d1", !.signer = "d1",
               !.data = d, !.commit = d, !.cseg = <<d>>, !.op = 1, !.dur = du, !.replica = r, !.timeout = t, !.size = 1000,
               !.alias = "al" \o d]

Base == FoldLeft(LAMBDA s, e : Apply(Cfg, s, e).st, Gen.post, SetupEvents)

LiveInit ==
    /\ \E du \in Durs, r \in Replicas, t \in Timeouts : st = Apply(Cfg, Base, LiveStore("D1", du, r, t)).st
    /\ gh = 0 /\ bad = {} /\ lastEv = E0 /\ depth = 0 /\ hist = <<>>

Quiet == UNCHANGED <<gh, bad, lastEv, depth, hist>>

\* a provider completes a shard it was assigned (or a replacement it was handed)
CompleteStep == \E e \in Completes(st) : LET r == Apply(Cfg, st, e) IN r.res = "ok" /\ st' = r.st /\ Quiet
\* a second order arrives while the first is in flight (two orders can time out in the same block)
SecondStore == /\ st.oc <= MaxOC - 1 /\ ~HasMeta(st, "D2")
               /\ \E du \in Durs, r \in Replicas, t \in Timeouts : LET x == Apply(Cfg, st, LiveStore("D2", du, r, t)) IN x.res = "ok" /\ st' = x.st
               /\ Quiet
\* the chain produces blocks: up to and including the next height at which anything is scheduled
TickStep == LET nx == NextScheduled(Cfg, Work(st)) IN
            /\ nx # -1 /\ nx - st.h <= 12000      \* (beyond: only the offline detection of a world that is never offline)
            /\ st' = Apply(Cfg, st, [E0 EXCEPT !.kind = "Blocks", !.n = nx - st.h + 1]).st
            /\ Quiet

\* the owner and the providers act in between, at most MaxEvents times in a behaviour: a renewal, a migration (whose
\* hand-over again nobody is obliged to complete), a termination, an update or force-push (a further order that may stall), a
\* cancellation
LiveUpd(s) ==   \* a new version of D1 on top of the latest one (op 1) or replacing it (op 2, force-push), again with every shape
    IF ~HasMeta(s, "D1") THEN {}
    ELSE LET m == MetaOf(s, "D1")  nc == "c" \o ToString(s.oc) IN
         {[LiveStore("D1", d, r, t) EXCEPT !.commit = m.commit \o "|" \o nc, !.cseg = <<m.commit, nc>>, !.op = o] :
             o \in UpdOps, d \in Durs, r \in {1}, t \in {300}}
ExtraStep == /\ depth < MaxEvents
             /\ \E e \in Renews(st) \cup Migrates(st) \cup Terminates(st) \cup LiveUpd(st) \cup Cancels(st) :
                   LET r == Apply(Cfg, st, e) IN r.res = "ok" /\ st' = r.st
             /\ depth' = depth + 1 /\ UNCHANGED <<gh, bad, lastEv, hist>>

LiveNext == CompleteStep \/ SecondStore \/ TickStep \/ ExtraStep
LiveSpec == LiveInit /\ [][LiveNext]_vars /\ WF_vars(TickStep)

\* settled: no order is waiting for anybody any more - every order still on chain is completed and lists only stored shards -
\* nothing is left in the timeout queue and the order escrow holds nothing
AllSettled ==
    /\ \A i \in 1..Len(st.orders) : LET o == st.orders[i] IN
          /\ o.status = OCompleted
          /\ \A k \in 1..Len(o.shards) : HasShard(st, o.shards[k]) /\ ShardOf(st, o.shards[k]).status = SCompleted
    /\ st.timeoutQ = <<>>
    /\ BalOf(st, "m_order") = 0
EventuallySettled == <>[]AllSettled

\* C11 / C07 / C14 in the long run (nobody renews in this world): once the paid term is over the data, its orders and shards are
\* gone, every schedule is empty, every provider has its shard collateral and its used capacity back, and the market holds no
\* more than rounding dust for what was stored
AllGone ==
    /\ st.orders = <<>> /\ st.shards = <<>> /\ st.metas = <<>> /\ st.aliases = <<>>
    /\ st.timeoutQ = <<>> /\ st.expShardQ = <<>> /\ st.expData = <<>>
    /\ \A i \in 1..Len(st.pledges) : st.pledges[i].used = 0 /\ st.pledges[i].shPl = 0
    /\ \A i \in 1..Len(st.workers) : st.workers[i].storage = 0 /\ st.workers[i].income = 0
    /\ BalOf(st, "m_order") = 0
EventuallyGone == <>[]AllGone
=============================================================================
