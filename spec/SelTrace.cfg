SPECIFICATION Spec
CONSTANTS
  CaseFile = "selection.ndjson"
  MinDuration = 3600
  MaxTries = 10
INVARIANT Checked
POSTCONDITION Consumed
CHECK_DEADLOCK FALSE
