SPECIFICATION Spec
CONSTANTS
  GenesisFile = "genesis.json"
  Family = "sponsor"
  MinDuration = 3600
  MaxTries = 10
  MaxH = 100000
  MaxOC = 3
  MaxSC = 40
  MaxEvents = 14
  Sizes = {1000}
  Durs = {3600}
  Timeouts = {300, 3600}
  Replicas = {1, 2}
INVARIANT AllFormulasHold
CONSTRAINT Bounded
VIEW View
CHECK_DEADLOCK FALSE
