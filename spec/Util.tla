------------------------------- MODULE Util -------------------------------
(* Sequence-of-records helpers. The abstract state keeps every collection as a
   sequence of records in KV-store iteration order (that order is observable:
   provider selection and the end-blockers iterate the stores). *)
EXTENDS Integers, Sequences, FiniteSets, SequencesExt, TLC

Rng(seq) == {seq[i] : i \in 1..Len(seq)}

MinOf(S) == CHOOSE x \in S : \A y \in S : x <= y
MaxOf(S) == CHOOSE x \in S : \A y \in S : x >= y
Max2(a, b) == IF a >= b THEN a ELSE b
Min2(a, b) == IF a <= b THEN a ELSE b

\* index of the first record whose field `key` equals v, 0 if none
IdxBy(seq, key, v) ==
    LET S == {i \in 1..Len(seq) : seq[i][key] = v}
    IN IF S = {} THEN 0 ELSE MinOf(S)

Has(seq, key, v) == \E i \in 1..Len(seq) : seq[i][key] = v
Get(seq, key, v) == seq[IdxBy(seq, key, v)]
Del(seq, key, v) == SelectSeq(seq, LAMBDA r : r[key] # v)
\* replace the record with the same key, or append (ids grow, so append keeps order)
Put(seq, key, rec) ==
    LET i == IdxBy(seq, key, rec[key])
    IN IF i = 0 THEN Append(seq, rec) ELSE [seq EXCEPT ![i] = rec]
\* insert keeping the sequence sorted by Rank(rec[key]) (stores keyed by address)
PutSorted(seq, key, rec, Rank(_)) ==
    LET i == IdxBy(seq, key, rec[key])
    IN IF i # 0 THEN [seq EXCEPT ![i] = rec]
       ELSE LET before == SelectSeq(seq, LAMBDA r : Rank(r[key]) < Rank(rec[key]))
                after  == SelectSeq(seq, LAMBDA r : Rank(r[key]) > Rank(rec[key]))
            IN before \o <<rec>> \o after

SumSeq(seq, F(_)) == FoldLeft(LAMBDA acc, x : acc + F(x), 0, seq)
SumOver(S, F(_)) == FoldLeft(LAMBDA acc, x : acc + F(x), 0, SetToSeq(S))
RemoveVal(seq, v) == SelectSeq(seq, LAMBDA x : x # v)
InSeq(v, seq) == \E i \in 1..Len(seq) : seq[i] = v
IndexOf(seq, v) == LET S == {i \in 1..Len(seq) : seq[i] = v} IN IF S = {} THEN 0 ELSE MinOf(S)
NoDup(seq) == \A i, j \in 1..Len(seq) : i # j => seq[i] # seq[j]

CeilDiv(a, b) == (a + b - 1) \div b
=============================================================================
