------------------------------- MODULE State -------------------------------
(* The abstract state of the SAO chain and read-only accessors on it.

   `st` is ONE record whose fields mirror what the chain's queries / genesis
   export expose (harness/chain/project.go produces exactly this shape from the
   real stores; Chain.tla's Apply produces it from the specification):

     h, seed                 block height; integer encoded by the header AppHash
     bal, supply             bank balances (coins) of named accounts and module
                             accounts m_order m_market m_node m_did ...; total supply
     nodes    <<[a,status,rep,role,val,tx,alive]>>         x/node Node      (by address)
     pledges  <<[a,cap,used,capPl,shPl,rew,rdebt]>>        x/node Pledge    (rew,rdebt: milli-coins)
     pdebts   <<[a,amt]>>                                  x/node PledgeDebt
     pool     [pledged,reward,acc,storage,blocks]          x/node Pool (acc: milli-coins per 10^6 bytes)
     round                                                 super-node cursor (-1 = unset)
     orders   <<[id,creator,owner,provider,status,replica,shards,amount,size,op,
                 created,timeout,dur,data,commit,paydid]>> x/order Order    (by id)
     shards   <<[id,order,status,sp,from,pledge,size,created,dur,renew]>>   (by id)
     oc, sc                                                next order id / next shard id
     metas    <<[data,owner,alias,order,commit,commits,orders,status,dur,created,ro,rw]>>
     aliases  <<[key,data]>>
     expData, timeoutQ, expShardQ   <<[h,ids]>>            schedules (list order preserved)
     workers  <<[a,storage,rew,income,last]>>              x/market Worker (rew,income: micro-coins)
     pay, kids, bindings, didBal                           x/did tables: payment address per did, key did per address,
                                                           did per bound account (cosmos account, or eip155 "e1", ...)
     accLists, accIds, accAuths, seeds                     x/did account-did tables and past seeds
     versions <<[doc, versions]>>                          sid DIDs: the did ("s1" = its root document) and the names of
                                                           its key documents in rotation order ("s1", "s1_v1", ...)
     faults, faultIdx, fishing                             x/node fault tables
     delegs, vals, unbond, redel                           the part of x/staking the node hooks read / the limits they hit
     vol                                                   the staking hooks' process-global (NOT in the store)
     pool.reward is RELATIVE to its genesis value (cfg.rewardAge / cfg.toNextAge say where genesis stands, Chain!RewardAge)
     vals     <<[v,shares,tokens,status]>>                 validators in operator-address order; status 1 unbonded, 2 unbonding,
                                                           3 bonded; cfg.maxVals places in the active set (Chain!StakingEnd)

   Events name the key that really signed (`signer`: a key did or a sid DOCUMENT) separately from what the request's
   header claims (`sigmode`); Principal(cfg, s, ev) below is the DID that key belongs to.
*)
EXTENDS Util

\* status codes (x/order/types/constants.go, x/model/types/constants.go)
OPending   == 0
OCompleted == 3
ODataReady == 6
SWaiting   == 0
SCompleted == 2
SMigrating == 4
STimeout   == 5
MNew       == 0
MComplete  == 4
\* node status bits (x/node/types/types.go)
BitOnline  == 1
BitGateway == 2
BitStorage == 4
BitAccept  == 8
SPStatus   == 13   \* online | storage | accept
SuperReq   == 15   \* online | gateway | storage | accept
RepFloor   == 8000

HasBits(x, m) == \* x & m = m   for the small masks used here
    /\ (m % 2 = 1        => x % 2 = 1)
    /\ ((m \div 2) % 2 = 1 => (x \div 2) % 2 = 1)
    /\ ((m \div 4) % 2 = 1 => (x \div 4) % 2 = 1)
    /\ ((m \div 8) % 2 = 1 => (x \div 8) % 2 = 1)

HasOrder(s, id)  == Has(s.orders, "id", id)
OrderOf(s, id)   == Get(s.orders, "id", id)
HasShard(s, id)  == Has(s.shards, "id", id)
ShardOf(s, id)   == Get(s.shards, "id", id)
HasMeta(s, d)    == Has(s.metas, "data", d)
MetaOf(s, d)     == Get(s.metas, "data", d)
HasNode(s, a)    == Has(s.nodes, "a", a)
NodeOf(s, a)     == Get(s.nodes, "a", a)
HasPledge(s, a)  == Has(s.pledges, "a", a)
PledgeOf(s, a)   == Get(s.pledges, "a", a)
HasWorker(s, a)  == Has(s.workers, "a", a)
WorkerOf(s, a)   == Get(s.workers, "a", a)
HasPay(s, d)     == Has(s.pay, "did", d)
PayOf(s, d)      == Get(s.pay, "did", d).a
DebtOf(s, a)     == IF Has(s.pdebts, "a", a) THEN Get(s.pdebts, "a", a).amt ELSE 0
BalOf(s, a)      == IF a \in DOMAIN s.bal THEN s.bal[a] ELSE 0

\* account acts for node n: it is n or one of the hot keys n registered
ActsFor(s, acc, n) == acc = n \/ (HasNode(s, n) /\ InSeq(acc, NodeOf(s, n).tx))

ShardEnd(sh)     == sh.created + sh.dur
ShardPaidEnd(sh) == sh.created + sh.dur + SumSeq(sh.renew, LAMBDA r : r.dur)
CompletedShards(s)      == SelectSeq(s.shards, LAMBDA sh : sh.status = SCompleted)
CompletedShardsOf(s, a) == SelectSeq(s.shards, LAMBDA sh : sh.status = SCompleted /\ sh.sp = a)

NodeAccs(s)   == {s.nodes[i].a : i \in 1..Len(s.nodes)} \cup {s.pledges[i].a : i \in 1..Len(s.pledges)}
ClientAccs(s) == {s.pay[i].a : i \in 1..Len(s.pay)}

\* exact arithmetic on micro-coin amounts that may exceed 32 bits: pairs [q (coins), r (micro, < 10^6)]
Mega == 1000000
MuNorm(q, r)  == [q |-> q + (r \div Mega), r |-> r % Mega]
MuOf(x)       == MuNorm(0, x)
MuAdd(a, b)   == MuNorm(a.q + b.q, a.r + b.r)
MuSumSeq(seq, F(_)) == FoldLeft(LAMBDA acc, x : MuAdd(acc, MuOf(F(x))), [q |-> 0, r |-> 0], seq)
Price(size, replica, dur) == CeilDiv(size * replica * dur, Mega)
MuLeq(a, b)   == a.q < b.q \/ (a.q = b.q /\ a.r <= b.r)
\* ---- who signed (shared by Chain.tla and Props.tla)
DocsOf(s, did) == IF Has(s.versions, "doc", did) THEN Get(s.versions, "doc", did).versions ELSE <<>>
IsSidDocOnChain(s, n) == \E i \in 1..Len(s.versions) : InSeq(n, s.versions[i].versions)
SidOfDoc(s, n) == s.versions[CHOOSE i \in 1..Len(s.versions) : InSeq(n, s.versions[i].versions)].doc
\* the DID whose key really signed ("" = nobody identifiable)
Principal(cfg, s, ev) ==
    IF InSeq(ev.signer, cfg.didOrder) THEN ev.signer
    ELSE IF IsSidDocOnChain(s, ev.signer) THEN SidOfDoc(s, ev.signer) ELSE ""
=========================================================================
