SPECIFICATION Spec
CONSTANTS
  Stream <- StreamDef
  Keyed = TRUE
  BlockTime = TRUE
  MaxExtra = 3
  Planned = FALSE
  Dump = FALSE
INVARIANT Agreement
CHECK_DEADLOCK FALSE
