SPECIFICATION LiveSpec
CONSTANTS
  GenesisFile = "genesis.json"
  Family = "timeout"
  MinDuration = 3600
  MaxTries = 10
  MaxH = 100000
  MaxOC = 1
  MaxSC = 3
  MaxEvents = 2
  Sizes = {1000}
  Durs = {3600}
  Timeouts = {300, 1800, 3600}
  UpdOps = {}
  Replicas = {1, 2, 3}
PROPERTY EventuallySettled
PROPERTY EventuallyGone
CHECK_DEADLOCK FALSE
