--------------------------------- MODULE MC ---------------------------------
(* Bounded, exhaustive model of the chain: Next applies Chain!Apply to every event of
   a finite, state-dependent alphabet; every formula of the catalogue (Ghost!Names) is
   evaluated on every step TLC explores.  The initial state is the REAL genesis state
   (projected by the harness into genesis.json) followed by the setup events, so the
   model starts where the implementation starts.

   Variables: st (abstract state), gh (ghost ledger), bad (names of the formulas the
   last step violated; the invariant is bad = {}), lastEv (the event that produced
   st: excluded from the VIEW, it only labels counterexamples so that they can be
   replayed on the real code). *)
EXTENDS Ghost, Chain, Json

CONSTANTS GenesisFile,   \* JSON written by `saoharness genesis`
          Family,        \* "pay" | "reward" | "auth"  : which alphabet
          MaxH, MaxOC, MaxSC, MaxEvents,
          Sizes, Durs, Timeouts, Replicas

Gen == JsonDeserialize(GenesisFile)
Cfg == Gen.cfg

VARIABLES st, gh, bad, lastEv, depth, hist
vars == <<st, gh, bad, lastEv, depth, hist>>
View == <<st, gh, bad>>

E0 == [kind |-> "", creator |-> "", provider |-> "", owner |-> "", signer |-> "", sigmode |-> "ok", gw |-> "", data |-> "",
       commit |-> "", cseg |-> <<"">>, op |-> 0, dur |-> 0, replica |-> 0, timeout |-> 0, size |-> 0, paydid |-> "", alias |-> "",
       ro |-> <<>>, rw |-> <<>>, order |-> 0, n |-> 0, status |-> 0, tx |-> <<>>, val |-> "", val2 |-> "", datas |-> <<>>,
       did |-> "", acc |-> "", amount |-> 0, faults |-> <<>>]

\* the small world: three nodes (a01 is also the gateway, hot key a08), two owners
Gateway == "a01"
Nodes == <<"a01", "a02", "a03">>
Owners == <<[did |-> "d1", acc |-> "a05"], [did |-> "d2", acc |-> "a06"]>>

\* family sponsor: d2 never registers a payment address - only a sponsor (d1) can pay for what d2 owns
PayingOwners == IF Family = "sponsor" THEN <<Owners[1]>> ELSE Owners
SetupEvents ==
    [i \in 1..Len(PayingOwners) |-> [E0 EXCEPT !.kind = "PayAddr", !.creator = PayingOwners[i].acc, !.acc = PayingOwners[i].acc, !.did = PayingOwners[i].did]]
    \o FlattenSeq([i \in 1..Len(Nodes) |->
         << [E0 EXCEPT !.kind = "Create", !.creator = Nodes[i]],
            [E0 EXCEPT !.kind = "Reset", !.creator = Nodes[i], !.status = IF Nodes[i] = Gateway THEN 15 ELSE 13,
                       \* a02 declares somebody else's address (a04) as its own transaction address
                       !.tx = IF Nodes[i] = Gateway THEN <<"a08">> ELSE IF Nodes[i] = "a02" THEN <<"a04">> ELSE <<>>],
            [E0 EXCEPT !.kind = "AddVstorage", !.creator = Nodes[i], !.size = 2000000] >>])

\* family sidauth: two sid DIDs (s1 created by a09, s2 by a10); s1 has a second account (a11) that a key rotation can drop
SidSetup ==
    << [E0 EXCEPT !.kind = "Binding", !.creator = "a09", !.acc = "a09", !.did = "s1"],
       [E0 EXCEPT !.kind = "Binding", !.creator = "a10", !.acc = "a10", !.did = "s2"],
       [E0 EXCEPT !.kind = "Binding", !.creator = "a09", !.acc = "a11", !.did = "s1"] >>
AllSetup == IF Family = "sidauth" THEN SetupEvents \o SidSetup ELSE SetupEvents

\* family migrate starts from one stored model (replica 1, completed by whoever was assigned)
MigStore == [E0 EXCEPT !.kind = "Store", !.creator = Gateway, !.provider = Gateway, !.gw = Gateway, !.owner = "d1", !.signer = "d1",
                       !.data = "D1", !.commit = "D1", !.cseg = <<"D1">>, !.op = 1, !.dur = 3600, !.replica = 1, !.timeout = 1800,
                       !.size = 1000, !.alias = "alD1"]
\* (family stagger: two replicas, only the first is stored at the start - the second completes later, or after a re-assignment,
\* so that the two shards of one order run on offset periods)
MigStoreOf == IF Family = "stagger" THEN [MigStore EXCEPT !.replica = 2, !.timeout = 300] ELSE MigStore
MigSetup ==
    LET s1 == FoldLeft(LAMBDA s, e : Apply(Cfg, s, e).st, Gen.post, SetupEvents)
        s2 == Apply(Cfg, s1, MigStoreOf).st
        sp == s2.shards[1].sp
    IN <<MigStoreOf, [E0 EXCEPT !.kind = "Complete", !.creator = sp, !.provider = sp, !.order = 1, !.size = 1000]>>
FullSetup == IF Family \in {"migrate", "version", "debt", "stagger", "capacity"} THEN SetupEvents \o MigSetup ELSE AllSetup

InitState == FoldLeft(LAMBDA s, e : Apply(Cfg, s, e).st, Gen.post, FullSetup)

\* ---------------------------------------------------------------- alphabet
StoreNew(s) ==
    {[E0 EXCEPT !.kind = "Store", !.creator = Gateway, !.provider = Gateway, !.gw = Gateway, !.owner = "d1", !.signer = "d1",
                !.data = "D1", !.commit = "D1", !.cseg = <<"D1">>, !.op = 1, !.dur = d, !.replica = r, !.timeout = t, !.size = z,
                !.alias = "al"] : d \in Durs, r \in Replicas, t \in Timeouts, z \in Sizes}
StoreUpd(s) ==
    IF ~HasMeta(s, "D1") THEN {}
    ELSE LET m == MetaOf(s, "D1")  nc == "c" \o ToString(s.oc) IN
         {[E0 EXCEPT !.kind = "Store", !.creator = Gateway, !.provider = Gateway, !.gw = Gateway, !.owner = "d1", !.signer = "d1",
                     !.data = "D1", !.commit = m.commit \o "|" \o nc, !.cseg = <<m.commit, nc>>, !.op = o, !.dur = d, !.replica = r,
                     !.timeout = t, !.size = z, !.alias = "al"] : o \in {1, 2}, d \in Durs, r \in Replicas, t \in Timeouts, z \in Sizes}
ListingOrder(s, sid) == LET os == SelectSeq(s.orders, LAMBDA o : InSeq(sid, o.shards)) IN os[Len(os)].id
Completes(s) ==
    {[E0 EXCEPT !.kind = "Complete", !.creator = sh.sp, !.provider = sh.sp, !.order = ListingOrder(s, sh.id), !.size = sh.size] :
        sh \in {x \in Rng(s.shards) : x.status \in {SWaiting, SMigrating} /\ \E o \in Rng(s.orders) : InSeq(x.id, o.shards)}}
Cancels(s) ==
    {[E0 EXCEPT !.kind = "Cancel", !.creator = o.creator, !.provider = o.provider, !.order = o.id] : o \in {x \in Rng(s.orders) : x.status # OCompleted}}
Terminates(s) ==
    {[E0 EXCEPT !.kind = "Terminate", !.creator = Gateway, !.provider = Gateway, !.owner = m.owner, !.signer = m.owner, !.data = m.data] : m \in Rng(s.metas)}
Renews(s) ==
    {[E0 EXCEPT !.kind = "Renew", !.creator = Gateway, !.provider = Gateway, !.owner = m.owner, !.signer = m.owner, !.datas = <<m.data>>,
                !.dur = d, !.timeout = 1] : m \in Rng(s.metas), d \in Durs}
Migrates(s) ==
    {[E0 EXCEPT !.kind = "Migrate", !.creator = sh.sp, !.provider = sh.sp, !.datas = <<OrderOf(s, sh.order).data>>] :
        sh \in {x \in Rng(s.shards) : x.status = SCompleted /\ HasOrder(s, x.order)}}
Claims(s) == {[E0 EXCEPT !.kind = "Claim", !.creator = Nodes[i]] : i \in 1..Len(Nodes)}
\* time is compressed: advance one block, or straight to (and just past) the next scheduled height
BlocksEv(s) ==
    LET nx == NextScheduled(Cfg, Work(s))
        d == IF nx = -1 THEN 1 ELSE nx - s.h
    IN {[E0 EXCEPT !.kind = "Blocks", !.n = n] : n \in {x \in {1, d, d + 1} : x >= 1 /\ x <= 12000}}

\* ---------------------------------------------------------------- generator alphabet (real constants, adversarial shapes)
\* parameters are picked by position so that each kind contributes few successors (the simulator picks successors uniformly)
PickAt(set, k) == LET q == SetToSortSeq(set, <) IN q[(k % Len(q)) + 1]
Dids == <<"d1", "d2">>
GenActors == <<"a01", "a08", "a04", "a02">>      \* gateway, its hot key, a stranger, another node
GDur(s, k) == PickAt(Durs, s.oc + s.h + k)
GRep(s, k) == PickAt(Replicas, s.oc + (s.h \div 2) + k)
GTo(s, k)  == PickAt(Timeouts, s.oc + (s.h \div 3) + k)
GSize(s, k) == PickAt(Sizes, s.sc + s.h + k)
GData(s) == {"D1", "D2"}
GStoreNew(s) ==
    {[E0 EXCEPT !.kind = "Store", !.creator = Gateway, !.provider = Gateway, !.gw = Gateway, !.owner = o, !.signer = o,
                !.data = d, !.commit = d, !.cseg = <<d>>, !.op = 1, !.dur = GDur(s, 0), !.replica = GRep(s, 0), !.timeout = GTo(s, 0),
                !.size = GSize(s, 0), !.alias = "al" \o d] : d \in {x \in GData(s) : ~HasMeta(s, x)}, o \in {"d1"}}
    \cup \* the owner-signed request names the gateway, but is submitted through another node's declared address
    {[E0 EXCEPT !.kind = "Store", !.creator = "a04", !.provider = "a02", !.gw = Gateway, !.owner = "d1", !.signer = "d1",
                !.data = d, !.commit = d, !.cseg = <<d>>, !.op = 1, !.dur = GDur(s, 0), !.replica = 1, !.timeout = GTo(s, 0),
                !.size = GSize(s, 0), !.alias = "al" \o d] : d \in {x \in GData(s) : ~HasMeta(s, x)}}
\* further shapes for the generator: a sid DID as owner (once GenDid has created s1), its bound account submitting itself
\* (pending order, Ready by the gateway), a sponsor paying for another owner
GStoreMore(s) ==
    UNION {{[E0 EXCEPT !.kind = "Store", !.creator = c, !.provider = Gateway, !.gw = Gateway, !.owner = "s1", !.signer = "s1",
                        !.data = d, !.commit = d, !.cseg = <<d>>, !.op = 1, !.dur = GDur(s, 3), !.replica = 1, !.timeout = GTo(s, 3),
                        !.size = GSize(s, 3), !.alias = "al" \o d] : c \in {Gateway, "a04"}}
           \cup {[E0 EXCEPT !.kind = "Store", !.creator = "a05", !.provider = Gateway, !.gw = Gateway, !.owner = "d2", !.signer = "d2", !.paydid = "d1",
                            !.data = d, !.commit = d, !.cseg = <<d>>, !.op = 1, !.dur = GDur(s, 4), !.replica = GRep(s, 4), !.timeout = GTo(s, 4),
                            !.size = GSize(s, 4), !.alias = "al" \o d]}
           : d \in {x \in GData(s) : ~HasMeta(s, x)}}
    \cup {[E0 EXCEPT !.kind = "Ready", !.creator = Gateway, !.provider = Gateway, !.order = o.id] : o \in {x \in Rng(s.orders) : x.status = OPending}}
GStoreUpd(s) ==
    UNION {LET nc == "c" \o ToString(s.oc) IN
           {[E0 EXCEPT !.kind = "Store", !.creator = cr, !.provider = Gateway, !.gw = Gateway, !.owner = sg, !.signer = sg, !.sigmode = sm,
                       !.data = m.data, !.commit = b \o "|" \o nc, !.cseg = <<b, nc>>, !.op = PickAt({1, 2}, s.oc + s.h),
                       !.dur = GDur(s, 1), !.replica = GRep(s, 1), !.timeout = GTo(s, 1), !.size = GSize(s, 1), !.alias = m.alias] :
              cr \in {Gateway, "a08"}, sg \in Rng(Dids), sm \in {"ok"}, b \in {m.commit, m.data, ""}} \cup
           {[E0 EXCEPT !.kind = "Store", !.creator = "a04", !.provider = "a02", !.gw = Gateway, !.owner = m.owner, !.signer = m.owner, !.sigmode = "stale",
                       !.data = m.data, !.commit = m.commit \o "|" \o nc, !.cseg = <<m.commit, nc>>, !.op = 1,
                       !.dur = GDur(s, 1), !.replica = 1, !.timeout = GTo(s, 1), !.size = GSize(s, 1), !.alias = m.alias]}
           : m \in Rng(s.metas)}
GCompletes(s) ==
    Completes(s) \cup
    {[E0 EXCEPT !.kind = "Complete", !.creator = "a04", !.provider = sh.sp, !.order = ListingOrder(s, sh.id), !.size = sh.size] :
        sh \in {x \in Rng(s.shards) : x.status = SWaiting /\ x.id % 3 = s.h % 3 /\ \E o \in Rng(s.orders) : InSeq(x.id, o.shards)}}
GCancels(s) ==
    Cancels(s) \cup
    {[E0 EXCEPT !.kind = "Cancel", !.creator = "a03", !.provider = "a03", !.order = o.id] : o \in {x \in Rng(s.orders) : x.status # OCompleted}}
GSigned(s) ==
    UNION {{[E0 EXCEPT !.kind = "Terminate", !.creator = Gateway, !.provider = Gateway, !.owner = sg, !.signer = sg, !.data = m.data],
            [E0 EXCEPT !.kind = "Renew", !.creator = Gateway, !.provider = Gateway, !.owner = sg, !.signer = sg, !.datas = <<m.data>>,
                       !.dur = GDur(s, 2), !.timeout = GTo(s, 2)],
            [E0 EXCEPT !.kind = "Permission", !.creator = Gateway, !.provider = Gateway, !.owner = m.owner, !.signer = sg, !.data = m.data,
                       !.rw = IF s.h % 2 = 0 THEN <<"d2">> ELSE <<>>]} : m \in Rng(s.metas), sg \in Rng(Dids)}
GBlocks(s) ==
    LET nx == NextScheduled(Cfg, Work(s))
        d == IF nx = -1 THEN 1 ELSE nx - s.h
    IN {[E0 EXCEPT !.kind = "Blocks", !.n = n] : n \in {x \in {1, d, d + 1, d + 2} : x >= 1 /\ x <= 12000}}

\* ---------------------------------------------------------------- further exhaustive families
\* did: every submitter x account x sid x proof shape; key rotations over all partitions of the bound accounts
DidAccs == <<"a04", "a05", "a06">>
DidBindable == DidAccs \o <<"e1">>     \* e1: an Ethereum (eip155) account: can be bound, cannot submit or pay
Sids == <<"s1", "s2">>
DidEvents(s) ==
    {[E0 EXCEPT !.kind = "Binding", !.creator = c, !.acc = a, !.did = d, !.amount = t, !.sigmode = m] :
        c \in Rng(DidAccs), a \in Rng(DidBindable), d \in Rng(Sids), t \in {0, -901}, m \in {"ok", "replay"}}
    \cup UNION {LET bound == SelectSeq(DidBindable, LAMBDA a : BoundDid(s, a) = d) IN
               {[E0 EXCEPT !.kind = "DidUpdate", !.creator = c, !.did = d, !.tx = SetToSortSeq(rm, LAMBDA x, y : IndexOf(DidBindable, x) < IndexOf(DidBindable, y)),
                           !.datas = SelectSeq(bound, LAMBDA a : a \notin rm)] : c \in Rng(DidAccs), rm \in (SUBSET Rng(bound)) \ {{}}}
               : d \in Rng(Sids)}
    \cup {[E0 EXCEPT !.kind = "PayAddrSid", !.creator = c, !.acc = a, !.did = d] : c \in Rng(DidAccs), a \in Rng(DidAccs), d \in Rng(Sids)}
    \cup {[E0 EXCEPT !.kind = "PayAddr", !.creator = c, !.acc = a, !.did = "d2"] : c \in {"a04", "a05"}, a \in {"a04", "a05"}}

\* super: node a02 around the share threshold, third parties a04/a07, failing delegations, resets, capacity changes
SuperEvents(s) ==
    {[E0 EXCEPT !.kind = "Delegate", !.creator = d, !.val = "v1", !.amount = m] : d \in {"a02", "a04", "a07"}, m \in {10, 250000, 500000, 200000000}}
    \cup {[E0 EXCEPT !.kind = "Undelegate", !.creator = x.d, !.val = x.v, !.amount = m] :
            x \in {y \in Rng(s.delegs) : y.d \notin {"vo1", "vo2"}}, m \in {10, 250000, 500000}}
    \cup {[E0 EXCEPT !.kind = "Redelegate", !.creator = x.d, !.val = x.v, !.val2 = IF x.v = "v1" THEN "v2" ELSE "v1", !.amount = m] :
            x \in {y \in Rng(s.delegs) : y.d \notin {"vo1", "vo2"}}, m \in {250000}}
    \cup {[E0 EXCEPT !.kind = "Reset", !.creator = "a02", !.status = sx, !.val = v] : sx \in {15, 13}, v \in {"", "v1"}}
    \cup {[E0 EXCEPT !.kind = "AddVstorage", !.creator = "a02", !.size = 1000000],
          [E0 EXCEPT !.kind = "RemoveVstorage", !.creator = "a02", !.size = 1000000]}

\* valset: three validators, two places in the active set. Stake moves in whole units of consensus power (and in quarter
\* units that only move the share ratio), operators withdraw their own stake, the unbonded validator is emptied and removed;
\* node a02 (capacity at the threshold) declares full service with and without naming a validator. The validator set is
\* brought up to date at the end of the block: C20 on every step, also the steps taken by the end-blocker's hooks.
ValsetVals == {"v1", "v2", "v3"}
ValsetEvents(s) ==
    {[E0 EXCEPT !.kind = "Delegate", !.creator = "a02", !.val = v, !.amount = m] : v \in ValsetVals, m \in {250000, 1000000}}
    \cup {[E0 EXCEPT !.kind = "Delegate", !.creator = "a04", !.val = v, !.amount = 1000000] : v \in ValsetVals}
    \cup UNION {{[E0 EXCEPT !.kind = "Undelegate", !.creator = x.d, !.val = x.v, !.amount = m] :
                    m \in {x.shares} \cup (IF x.shares > 1000000 THEN {1000000} ELSE {})} : x \in Rng(s.delegs)}
    \cup UNION {{[E0 EXCEPT !.kind = "Redelegate", !.creator = x.d, !.val = x.v, !.val2 = v2, !.amount = x.shares] :
                    v2 \in ValsetVals \ {x.v}} : x \in {y \in Rng(s.delegs) : y.d \in {"a02", "vo3"}}}
    \cup {[E0 EXCEPT !.kind = "Reset", !.creator = "a02", !.status = 15, !.val = v] : v \in {"", "v3"}}
    \cup {[E0 EXCEPT !.kind = "Blocks", !.n = 1]}

\* reward: capacity changes and claims between minting blocks
RewardEvents(s) ==
    {[E0 EXCEPT !.kind = k, !.creator = a, !.size = 1000000] : k \in {"AddVstorage", "RemoveVstorage"}, a \in {"a01", "a02"}}
    \cup {[E0 EXCEPT !.kind = "Claim", !.creator = a] : a \in {"a01", "a02", "a03"}}
    \cup {[E0 EXCEPT !.kind = "Blocks", !.n = n] : n \in {1, 3}}

\* capacity: capacity pledges of every size around the rounding boundaries of the per-byte price (adding rounds UP to whole
\* units of 10^6 bytes, withdrawing rounds DOWN), by the holder of a stored shard and by a provider without shards, claims and
\* minting blocks in between, the shard ended by termination: C07 (capacity backing a shard cannot be withdrawn, used <= pledged,
\* coins back to the pledger), C08 (every capacity change settles the pending reward first; the share base is the pledged
\* capacity), C14 (pool aggregates are the sums) on every step.
CapacityEvents(s) ==
    LET holders == {sh.sp : sh \in {x \in Rng(s.shards) : x.status = SCompleted}}
        other == CHOOSE a \in Rng(Nodes) : a \notin holders
        who == holders \cup {other}
    IN {[E0 EXCEPT !.kind = "AddVstorage", !.creator = a, !.size = z] : a \in who, z \in {1, 1000000, 1000001}}
       \cup {[E0 EXCEPT !.kind = "RemoveVstorage", !.creator = a, !.size = z] : a \in who, z \in {1000000, 1999999, 2000000, 3000001}}
       \cup {[E0 EXCEPT !.kind = "Claim", !.creator = a] : a \in who}
       \cup {[E0 EXCEPT !.kind = "Blocks", !.n = n] : n \in {1, 3}}
       \cup Terminates(s)

\* auth: one model of d1; every request kind by both DIDs through the gateway, its hot key, a stranger and a node that
\* declared the stranger's address; adversarial commit shapes
AuthEvents(s) ==
    GStoreNew(s) \cup GStoreUpd(s) \cup GCompletes(s) \cup GCancels(s) \cup GSigned(s)
    \cup {[E0 EXCEPT !.kind = "Blocks", !.n = 1]}

\* sidauth: data models owned by the sid DID s1. Every signed request kind, signed with the key of EVERY sid document on
\* chain (s1's and s2's, current and rotated-away versions) and of a key DID, under a header that names the signer's own
\* DID or the owner (kidspoof); key rotations of s1 in between. C09 on every step: a model changes only if the key that
\* signed belongs to a document of the owner's DID (or of a grantee's, for updates / termination).
SidSigners(s) == UNION {Rng(v.versions) : v \in Rng(s.versions)} \cup {"d1"}
\* (a document of the owner's own DID under the owner's DID is simply a valid header: the harness normalises it to "ok")
SidModes(s, sg, ow) == {"ok"} \cup (IF IsSidDocOnChain(s, sg) /\ SidOfDoc(s, sg) = ow THEN {} ELSE {"kidspoof"})
SidAuthEvents(s) ==
    UNION {{[E0 EXCEPT !.kind = "Store", !.creator = Gateway, !.provider = Gateway, !.gw = Gateway, !.owner = "s1", !.signer = sg, !.sigmode = sm,
                       !.data = "D1", !.commit = "D1", !.cseg = <<"D1">>, !.op = 1, !.dur = 3600, !.replica = 1, !.timeout = 1800,
                       !.size = 1000, !.alias = "alD1"] : sm \in SidModes(s, sg, "s1")}
           : sg \in (IF HasMeta(s, "D1") THEN {} ELSE SidSigners(s))}
    \cup Completes(s)
    \cup UNION {UNION {{[E0 EXCEPT !.kind = "Terminate", !.creator = Gateway, !.provider = Gateway, !.owner = ow, !.signer = sg, !.sigmode = sm, !.data = m.data],
                 [E0 EXCEPT !.kind = "Renew", !.creator = Gateway, !.provider = Gateway, !.owner = ow, !.signer = sg, !.sigmode = sm, !.datas = <<m.data>>,
                            !.dur = 3600, !.timeout = 1800],
                 [E0 EXCEPT !.kind = "Permission", !.creator = Gateway, !.provider = Gateway, !.owner = ow, !.signer = sg, !.sigmode = sm, !.data = m.data,
                            !.rw = IF m.rw = <<>> THEN <<"s2">> ELSE <<>>],
                 [E0 EXCEPT !.kind = "Store", !.creator = Gateway, !.provider = Gateway, !.gw = Gateway, !.owner = ow, !.signer = sg, !.sigmode = sm,
                            !.data = m.data, !.commit = m.commit \o "|" \o "c" \o ToString(s.oc), !.cseg = <<m.commit, "c" \o ToString(s.oc)>>, !.op = 1,
                            !.dur = 3600, !.replica = 1, !.timeout = 1800, !.size = 1000, !.alias = m.alias]}
                 : sm \in SidModes(s, sg, ow)}
                : m \in Rng(s.metas), sg \in SidSigners(s), ow \in {"s1", "s2"}}
    \cup (IF BoundDid(s, "a11") = "s1"
          THEN {[E0 EXCEPT !.kind = "DidUpdate", !.creator = "a09", !.did = "s1", !.tx = <<"a11">>, !.datas = <<"a09">>]}
          ELSE {[E0 EXCEPT !.kind = "Binding", !.creator = "a09", !.acc = "a11", !.did = "s1"]})
    \* the owner's own accounts submit the store themselves (a11 only while it is bound): the order is recorded, pending, until
    \* the gateway it names declares itself Ready; it can be cancelled by whoever created it
    \cup {[E0 EXCEPT !.kind = "Store", !.creator = c, !.provider = Gateway, !.gw = Gateway, !.owner = "s1", !.signer = "s1",
                     !.data = "D2", !.commit = "D2", !.cseg = <<"D2">>, !.op = 1, !.dur = 3600, !.replica = 1, !.timeout = 1800,
                     !.size = 1000, !.alias = "alD2"] : c \in (IF HasMeta(s, "D2") THEN {} ELSE {"a09", "a11"})}
    \cup {[E0 EXCEPT !.kind = "Ready", !.creator = c, !.provider = Gateway, !.order = o.id] :
             o \in {x \in Rng(s.orders) : x.status = OPending}, c \in {Gateway, "a08"}}
    \cup Cancels(s)
    \cup {[E0 EXCEPT !.kind = "Blocks", !.n = 1]}

\* sponsor: orders of an owner WITHOUT a payment address, paid by a sponsor (payment did d1, submitted by its address):
\* every way such an order can end - completion and expiry, cancellation, termination by the owner, one provider silent
\* for ever (re-assignment, then the replica is given up and its price refunded) - with every refund accounted for
\* (C04 conservation, C05 refunds, C06 escrows on every step).
SponsorEvents(s) ==
    (IF s.oc <= 2 /\ ~HasMeta(s, "D1") THEN
        {[E0 EXCEPT !.kind = "Store", !.creator = "a05", !.provider = Gateway, !.gw = Gateway, !.owner = "d2", !.signer = "d2", !.paydid = "d1",
                    !.data = "D1", !.commit = "D1", !.cseg = <<"D1">>, !.op = 1, !.dur = du, !.replica = r, !.timeout = t, !.size = 10000,
                    !.alias = "alD1"] : du \in Durs, r \in Replicas, t \in Timeouts}
     ELSE {})
    \cup Completes(s) \cup Cancels(s)
    \cup {[E0 EXCEPT !.kind = "Terminate", !.creator = Gateway, !.provider = Gateway, !.owner = m.owner, !.signer = m.owner, !.data = m.data] : m \in Rng(s.metas)}
    \cup (LET nx == NextScheduled(Cfg, Work(s)) IN
          IF nx = -1 \/ nx - s.h > 12000 THEN {} ELSE {[E0 EXCEPT !.kind = "Blocks", !.n = nx - s.h + 1]})

\* generator extras: did, staking and fault events in the same behaviours as the storage life cycle
GenDid(s) ==
    {[E0 EXCEPT !.kind = "Binding", !.creator = c, !.acc = a, !.did = "s1", !.amount = t, !.sigmode = m] :
        c \in {"a04", "a05"}, a \in {"a04", "a05", "a06"}, t \in {0, -901}, m \in {"ok", "replay"}}
    \cup {[E0 EXCEPT !.kind = "PayAddrSid", !.creator = c, !.acc = a, !.did = "s1"] : c \in {"a04", "a05"}, a \in {"a04", "a05", "a06"}}
    \cup (LET bound == SelectSeq(DidAccs, LAMBDA a : BoundDid(s, a) = "s1") IN
          IF Len(bound) < 2 THEN {}
          ELSE {[E0 EXCEPT !.kind = "DidUpdate", !.creator = bound[1], !.did = "s1", !.tx = <<bound[Len(bound)]>>,
                           !.datas = SubSeq(bound, 1, Len(bound) - 1)],
                [E0 EXCEPT !.kind = "DidUpdate", !.creator = bound[Len(bound)], !.did = "s1", !.tx = <<bound[1]>>, !.datas = Tail(bound)]})
GenStaking(s) ==
    {[E0 EXCEPT !.kind = "Delegate", !.creator = d, !.val = "v1", !.amount = m] : d \in {"a02", "a07"}, m \in {10, 250000, 200000000}}
    \cup {[E0 EXCEPT !.kind = "Undelegate", !.creator = x.d, !.val = x.v, !.amount = m] :
            x \in {y \in Rng(s.delegs) : y.d # "vo1"}, m \in {10, 250000}}
    \cup {[E0 EXCEPT !.kind = "Reset", !.creator = "a02", !.status = 15, !.val = "v1"],
          [E0 EXCEPT !.kind = "AddVstorage", !.creator = "a02", !.size = 1000000]}
GenFaults(s) ==
    UNION {LET o == OrderOf(s, sh.order) IN
           {[E0 EXCEPT !.kind = "ReportFaults", !.creator = r, !.provider = sh.sp,
                       !.faults = <<[data |-> dd, order |-> o.id, shard |-> sid, commit |-> c, provider |-> sh.sp]>>] :
               r \in {"a03", "a01"}, sid \in {sh.id, sh.id + 1}, c \in {"c99", o.commit},
               dd \in {o.data} \cup {m.data : m \in Rng(s.metas)}}   \* also the data id of another existing model
           \cup {[E0 EXCEPT !.kind = "RecoverFaults", !.creator = r, !.provider = sh.sp,
                            !.faults = <<[data |-> o.data, order |-> o.id, shard |-> sh.id, commit |-> o.commit, provider |-> sh.sp]>>] :
                   r \in {sh.sp, "a03"}}
           : sh \in {x \in Rng(s.shards) : x.status = SCompleted /\ HasOrder(s, x.order) /\ x.id % 2 = s.h % 2}}

\* migrate: one stored model; its holder hands the shard over (Migrate, the new holder's Complete), the owner renews (at most
\* three renewals queued), time jumps from one scheduled height to just past it - in every order: hand-overs that straddle
\* one or several roll-overs, second hand-overs, termination. C13 (every listed shard exists, every shard is listed), C04/C06
\* (payments), C07/C14 (collateral), C11 (paid term) on every step.
MigrateEvents(s) ==
    Completes(s) \cup Migrates(s)
    \cup (IF Len(s.orders) <= 3 THEN {[E0 EXCEPT !.kind = "Renew", !.creator = Gateway, !.provider = Gateway, !.owner = m.owner, !.signer = m.owner,
                                               !.datas = <<m.data>>, !.dur = 3600, !.timeout = 1800] : m \in Rng(s.metas)} ELSE {})
    \cup (LET nx == NextScheduled(Cfg, Work(s)) IN
          IF nx = -1 \/ nx - s.h > 12000 THEN {} ELSE {[E0 EXCEPT !.kind = "Blocks", !.n = nx - s.h + 1]})
    \cup (IF s.h > 3000 THEN Terminates(s) ELSE {})

\* version: one stored model; updates and force-pushes on top of it (one replica, so that one Complete settles them),
\* abandoned ones (Cancel, or nobody completes and the timeout gives up), renewals of the latest version, time jumping to the
\* next scheduled height, termination: the version history (C16), rollbacks (C05), the paid term across versions (C11),
\* payments and collateral of superseded versions (C04, C06, C07) on every step.
VersionEvents(s) ==
    (IF ~HasMeta(s, "D1") \/ Len(s.orders) > 3 THEN {}
     ELSE LET m == MetaOf(s, "D1")  nc == "c" \o ToString(s.oc) IN
          {[E0 EXCEPT !.kind = "Store", !.creator = Gateway, !.provider = Gateway, !.gw = Gateway, !.owner = "d1", !.signer = "d1",
                      !.data = "D1", !.commit = m.commit \o "|" \o nc, !.cseg = <<m.commit, nc>>, !.op = o, !.dur = 3600, !.replica = 1,
                      !.timeout = 1800, !.size = 1000, !.alias = "alD1"] : o \in {1, 2}})
    \cup Completes(s) \cup Cancels(s)
    \cup (IF Len(s.orders) <= 3 THEN {[E0 EXCEPT !.kind = "Renew", !.creator = Gateway, !.provider = Gateway, !.owner = m.owner, !.signer = m.owner,
                                               !.datas = <<m.data>>, !.dur = 3600, !.timeout = 1800] : m \in Rng(s.metas)} ELSE {})
    \cup (LET nx == NextScheduled(Cfg, Work(s)) IN
          IF nx = -1 \/ nx - s.h > 12000 THEN {} ELSE {[E0 EXCEPT !.kind = "Blocks", !.n = nx - s.h + 1]})
    \cup (IF s.h > 1000 THEN Terminates(s) ELSE {})

\* debt: one stored model whose provider runs out of money: it sends its balance away (all but a few coins), the owner renews for
\* longer and longer terms (each raises the collateral: taken from the balance, the rest recorded as debt), the provider claims
\* (income repays the debt first), is refilled, the model is terminated or expires. C06 (the node escrow covers collateral net
\* of recorded debt), C07 (collateral back to the pledger), C04, C14 on every step.
DebtEvents(s) ==
    LET holders == {sh.sp : sh \in {x \in Rng(s.shards) : x.status = SCompleted}} IN
    {[E0 EXCEPT !.kind = "Send", !.creator = a, !.acc = "a08", !.amount = BalOf(s, a) - k] : a \in {x \in holders : BalOf(s, x) > 20}, k \in {0, 3}}
    \cup {[E0 EXCEPT !.kind = "Send", !.creator = "a08", !.acc = a, !.amount = 5] : a \in {x \in holders : BalOf(s, x) < 5}}
    \cup (IF Len(s.orders) <= 3 THEN {[E0 EXCEPT !.kind = "Renew", !.creator = Gateway, !.provider = Gateway, !.owner = m.owner, !.signer = m.owner,
                                               !.datas = <<m.data>>, !.dur = d, !.timeout = 1800] : m \in Rng(s.metas), d \in {3600, 40000, 400000}} ELSE {})
    \cup {[E0 EXCEPT !.kind = "Claim", !.creator = a] : a \in holders}
    \cup Migrates(s) \cup Completes(s)
    \cup (LET nx == NextScheduled(Cfg, Work(s)) IN
          IF nx = -1 \/ nx - s.h > 12000 THEN {[E0 EXCEPT !.kind = "Blocks", !.n = 100]} ELSE {[E0 EXCEPT !.kind = "Blocks", !.n = nx - s.h + 1]})
    \* (variant "debtreward": the same world WITH a block reward - single blocks too, so that a claim can be smaller than the debt)
    \cup (IF Cfg.blockReward > 0 THEN {[E0 EXCEPT !.kind = "Blocks", !.n = 1]} ELSE {})
    \cup (IF s.h > 100 THEN Terminates(s) ELSE {})

\* fault: one or two stored models; reports and recovery declarations by the fishman (a03), an ordinary node (a01) and the
\* accused, about matching and mismatching shard / commit / data ids; time jumps to the next penalty round (every 600
\* blocks) and across expiry. C19 on every step.
FaultEvents(s) ==
    (IF s.oc <= 2 THEN
        {[E0 EXCEPT !.kind = "Store", !.creator = Gateway, !.provider = Gateway, !.gw = Gateway, !.owner = "d1", !.signer = "d1",
                    !.data = d, !.commit = d, !.cseg = <<d>>, !.op = 1, !.dur = 3600, !.replica = 1, !.timeout = 1800, !.size = 1000,
                    !.alias = "al" \o d] : d \in {x \in {"D1", "D2"} : ~HasMeta(s, x)}}
     ELSE {})
    \cup Completes(s) \cup GenFaults(s)
    \cup {[E0 EXCEPT !.kind = "Blocks", !.n = n] : n \in {1, 600 - (s.h % 600), 3601}}

\* timeout: fault-sequence nondeterminism. One or two orders are handed to providers; each assigned provider either
\* completes or stays silent at each attempt; time only moves from one scheduled height to the next.  Every formula
\* (C12_Rescheduled, C12_ResolvedByBound, C12_ReplicasAccounted, C05_Timeout*, C04 conservation ...) holds on every path:
\* bounded liveness of the timeout machinery over ALL silence patterns up to the depth.
TimeoutEvents(s) ==
    (IF s.oc <= 2 THEN
        {[E0 EXCEPT !.kind = "Store", !.creator = Gateway, !.provider = Gateway, !.gw = Gateway, !.owner = "d1", !.signer = "d1",
                    !.data = d, !.commit = d, !.cseg = <<d>>, !.op = 1, !.dur = du, !.replica = r, !.timeout = t, !.size = 1000,
                    !.alias = "al" \o d] : d \in {x \in {"D1", "D2"} : ~HasMeta(s, x)}, du \in Durs, r \in Replicas, t \in Timeouts}
     ELSE {})
    \cup Completes(s)
    \cup (LET nx == NextScheduled(Cfg, Work(s)) IN
          IF nx = -1 \/ nx - s.h > 12000 THEN {} ELSE {[E0 EXCEPT !.kind = "Blocks", !.n = nx - s.h + 1]})

Events(s) ==
    CASE Family = "timeout" -> TimeoutEvents(s)
      [] Family = "did"    -> DidEvents(s)
      [] Family = "super"  -> SuperEvents(s)
      [] Family = "reward" -> RewardEvents(s)
      [] Family = "valset" -> ValsetEvents(s)
      [] Family = "auth"   -> AuthEvents(s)
      [] Family = "sidauth" -> SidAuthEvents(s)
      [] Family = "sponsor" -> SponsorEvents(s)
      [] Family = "fault"   -> FaultEvents(s)
      [] Family \in {"migrate", "stagger"} -> MigrateEvents(s)
      [] Family = "version" -> VersionEvents(s)
      [] Family = "debt"    -> DebtEvents(s)
      [] Family = "capacity" -> CapacityEvents(s)
      [] Family = "gen" -> GStoreNew(s) \cup GStoreMore(s) \cup GStoreUpd(s) \cup GCompletes(s) \cup GCancels(s) \cup GSigned(s)
                           \cup Migrates(s) \cup Claims(s) \cup GBlocks(s) \cup GenDid(s) \cup GenStaking(s) \cup GenFaults(s)
      [] Family = "pay" -> StoreNew(s) \cup StoreUpd(s) \cup Completes(s) \cup Cancels(s) \cup Terminates(s) \cup Renews(s)
                           \cup Migrates(s) \cup Claims(s) \cup BlocksEv(s)
      [] OTHER -> BlocksEv(s)

\* ---------------------------------------------------------------- behaviour
OutOf(s, e, r) ==
    [result |-> r.res, space |-> "", code |-> 0, insufficient |-> FALSE, blocks |-> e.n,
     claimed |-> IF e.creator \in DOMAIN s.bal THEN BalOf(r.st, e.creator) - BalOf(s, e.creator) ELSE 0,
     panic |-> FALSE, err |-> ""]

\* the ghost ledger is carried through the setup events as well (a family may start with orders already in place)
InitPair ==
    FoldLeft(LAMBDA acc, e : LET r == Apply(Cfg, acc.st, e)
                                 x == [pre |-> acc.st, ev |-> e, out |-> OutOf(acc.st, e, r), post |-> r.st]
                             IN [st |-> r.st, gh |-> GhostStep(acc.gh, x)],
             [st |-> Gen.post, gh |-> GhostInit([post |-> Gen.post, cfg |-> Cfg])], FullSetup)
Init ==
    /\ st = InitPair.st
    /\ gh = InitPair.gh
    /\ bad = {}
    /\ lastEv = E0
    /\ depth = 0
    /\ hist = FullSetup

Next ==
    /\ depth < MaxEvents
    /\ \E e \in Events(st) :
        LET r == Apply(Cfg, st, e)
            x == [pre |-> st, ev |-> e, out |-> OutOf(st, e, r), post |-> r.st]
            g2 == GhostStep(gh, x)
        IN /\ (r.res \in {"ok", "PANIC"} \/ Family = "gen")   \* exhaustive families: failed transactions change nothing, not explored
           /\ st' = r.st
           /\ gh' = g2
           /\ bad' = FailedNames(x, g2)
           /\ lastEv' = e
           /\ depth' = depth + 1
           /\ hist' = Append(hist, e)

Spec == Init /\ [][Next]_vars

Bounded == st.h <= MaxH /\ st.oc <= MaxOC /\ st.sc <= MaxSC

AllFormulasHold == bad = {}

\* simulation mode (behaviour generator): dump every finished behaviour's events as JSON
DumpBehaviour ==
    depth = MaxEvents => JsonSerialize("beh_" \o ToString(TLCGet("stats").traces) \o ".json", hist)
=============================================================================
