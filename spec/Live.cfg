SPECIFICATION LiveSpec
CONSTANTS
  GenesisFile = "genesis.json"
  Family = "timeout"
  MinDuration = 3600
  MaxTries = 10
  MaxH = 100000
  MaxOC = 3
  MaxSC = 3
  MaxEvents = 0
  Sizes = {1000}
  Durs = {3600}
  Timeouts = {300, 1800}
  UpdOps = {}
  Replicas = {2}
PROPERTY EventuallySettled
PROPERTY EventuallyGone
CHECK_DEADLOCK FALSE
