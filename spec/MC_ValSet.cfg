SPECIFICATION Spec
CONSTANTS
  GenesisFile = "genesis.json"
  Family = "valset"
  MinDuration = 3600
  MaxTries = 10
  MaxH = 100000
  MaxOC = 3
  MaxSC = 3
  MaxEvents = 4
  Sizes = {1000}
  Durs = {3600}
  Timeouts = {1800}
  Replicas = {1, 2}
INVARIANT AllFormulasHold
CONSTRAINT Bounded
VIEW View
CHECK_DEADLOCK FALSE
