SPECIFICATION Spec
CONSTANTS
  Stream <- StreamDef
  Keyed = FALSE
  BlockTime = FALSE
  MaxExtra = 3
  Planned = FALSE
  Dump = FALSE
INVARIANT Agreement
CHECK_DEADLOCK FALSE
