SPECIFICATION Spec
CONSTANTS
  Stream <- StreamDef
  Keyed = TRUE
  BlockTime = TRUE
  MaxExtra = 3
  Planned = TRUE
  Dump = TRUE
CONSTRAINT DumpSchedule
CHECK_DEADLOCK FALSE
