------------------------------- MODULE Chain -------------------------------
(* The SAO chain as an explicit state machine: one action per message handler /
   begin-blocker / end-blocker of the code, written as a pure transition function

        Apply(cfg, s, ev)  ==  [st |-> state after, res |-> "ok" | "err" | "PANIC" | "HANG"]

   so that the bounded models (MC_*.tla), the trace specification (Trace.tla:
   conformance of observed steps) and the behaviour generators all share it.
   The handlers are transcribed in the order of checks and effects of the Go code
   (x/sao, x/node, x/order, x/model, x/market keepers); helper operators mirror the
   Go helpers one to one (ShardPledge, ShardRelease, WorkerAppend, Withdraw, ...).

   Transactions are atomic: a working copy `w` of the state carries a `fail`
   field; every effect is a no-op once it is set and Tx() returns the original
   state with "err" (baseapp's cache-wrapped DeliverTx, which also recovers panics).
   Blockers are NOT atomic and not recovered: a failure there is "PANIC".

   Units: coins are integers; worker reward/income are micro-coins (the unit price
   is 10^-6 coin per byte and block); pledge reward / reward debt are milli-coins
   and pool.acc is milli-coins per capacity unit of 10^6 bytes (DESIGN.md 3.3). *)
EXTENDS State

CONSTANTS MinDuration,     \* 3600 in the code (literal in Store / Renew)
          MaxTries         \* 10   (timeout_management.go)

\* ------------------------------------------------------------------ plumbing
Good(w)        == w.fail = ""
Fail(w, why)   == IF Good(w) THEN [w EXCEPT !.fail = why] ELSE w
Work(s)        == [s EXCEPT !.inexact = <<>>, !.junk = <<>>] @@ [fail |-> ""]
Strip(w)       == [k \in (DOMAIN w) \ {"fail"} |-> w[k]]
\* a failed transaction rolls the store back, but not the process-global of the staking hooks (vol)
Tx(s, w)       == IF Good(w) THEN [st |-> Strip(w), res |-> "ok"] ELSE [st |-> [s EXCEPT !.vol = w.vol], res |-> "err"]

Rank(cfg, a)   == IndexOf(cfg.accs, a)

Send(w, from, to, amt) ==
    IF ~Good(w) \/ amt = 0 THEN w
    ELSE IF amt < 0 THEN Fail(w, "negative coin")
    ELSE IF BalOf(w, from) < amt THEN Fail(w, "insufficient funds")
    ELSE [w EXCEPT !.bal = [@ EXCEPT ![from] = @ - amt, ![to] = @ + amt]]

SetOrder(w, o)   == [w EXCEPT !.orders = Put(@, "id", o)]
DelOrder(w, id)  == [w EXCEPT !.orders = Del(@, "id", id)]
SetShard(w, sh)  == [w EXCEPT !.shards = Put(@, "id", sh)]
DelShard(w, id)  == [w EXCEPT !.shards = Del(@, "id", id)]
SetMeta(cfg, w, m) == [w EXCEPT !.metas = PutSorted(@, "data", m, LAMBDA d : IndexOf(cfg.datas, d))]
DelMetaRec(w, d) == [w EXCEPT !.metas = Del(@, "data", d)]
SetNode(cfg, w, n)   == [w EXCEPT !.nodes = PutSorted(@, "a", n, LAMBDA a : Rank(cfg, a))]
SetPledge(cfg, w, p) == [w EXCEPT !.pledges = PutSorted(@, "a", p, LAMBDA a : Rank(cfg, a))]
SetWorker(cfg, w, k) == [w EXCEPT !.workers = PutSorted(@, "a", k, LAMBDA a : Rank(cfg, a))]
SetDebt(cfg, w, a, amt) == [w EXCEPT !.pdebts = PutSorted(@, "a", [a |-> a, amt |-> amt], LAMBDA b : Rank(cfg, b))]
DelDebt(w, a)    == [w EXCEPT !.pdebts = Del(@, "a", a)]

\* schedules: sequences of [h, ids] sorted by h; ids in insertion order
SchedAdd(q, h, id) ==
    LET i == IdxBy(q, "h", h) IN
    IF i # 0 THEN [q EXCEPT ![i].ids = Append(@, id)]
    ELSE SelectSeq(q, LAMBDA e : e.h < h) \o <<[h |-> h, ids |-> <<id>>]>> \o SelectSeq(q, LAMBDA e : e.h > h)
SchedDelEntry(q, h) == SelectSeq(q, LAMBDA e : e.h # h)
\* model/keeper removeDataExpireBlock: drop the id from the entry at h, drop the entry when empty
SchedRemove(q, h, id) ==
    LET i == IdxBy(q, "h", h) IN
    IF i = 0 THEN q
    ELSE LET ids == RemoveVal(q[i].ids, id) IN
         IF ids = <<>> THEN SchedDelEntry(q, h) ELSE [q EXCEPT ![i].ids = ids]
SchedIds(q, h) == IF Has(q, "h", h) THEN Get(q, "h", h).ids ELSE <<>>

Units(bytes) == bytes \div Mega

\* ------------------------------------------------------------------ x/node: pledges
\* settle the accumulator for pledge p (all three pledge-changing helpers do this first)
Settled(w, p) == IF p.cap > 0 THEN [p EXCEPT !.rew = @ + w.pool.acc * Units(p.cap) - p.rdebt] ELSE p
Rebased(w, p) == [p EXCEPT !.rdebt = w.pool.acc * Units(p.cap)]

ShardPledgeAmount(size, dur) == CeilDiv(size * dur, 10 * Mega)

\* RepayPledgeDebt(sp, coins...) : returns [w, coins] with the coins reduced by what repaid the debt
RepayDebt(cfg, w, a, coins) ==
    IF ~Has(w.pdebts, "a", a) THEN [w |-> w, coins |-> coins]
    ELSE LET d == DebtOf(w, a)
             \* walk the coins in order (at most two)
             c1 == coins[1]
         IN IF c1 >= d THEN [w |-> DelDebt(w, a), coins |-> [coins EXCEPT ![1] = c1 - d]]
            ELSE IF Len(coins) = 1 THEN [w |-> SetDebt(cfg, w, a, d - c1), coins |-> <<0>>]
            ELSE LET d2 == d - c1  c2 == coins[2] IN
                 IF c2 >= d2 THEN [w |-> DelDebt(w, a), coins |-> <<0, c2 - d2>>]
                 ELSE [w |-> SetDebt(cfg, w, a, d2 - c2), coins |-> <<0, 0>>]

\* node/keeper ShardPledge(shard, unitPrice): shard already carries created/dur/renew; returns w with
\* the pledge record, the bank and the shard (pledge field) updated
ShardPledge(cfg, w, sh) ==
    IF ~Good(w) THEN w
    ELSE IF ~HasPledge(w, sh.sp) THEN Fail(w, "not pledged yet")
    ELSE LET p0 == Settled(w, PledgeOf(w, sh.sp)) IN
         IF p0.cap - p0.used < sh.size THEN Fail(w, "no enough available vstorage")
         ELSE LET base == ShardPledgeAmount(sh.size, sh.dur)
                  amt  == FoldLeft(LAMBDA acc, r : Max2(acc, r.pledge), base, sh.renew)
                  bal  == BalOf(w, sh.sp)
                  w1 == IF sh.renew = <<>> THEN Send(w, sh.sp, "m_node", amt)
                        ELSE IF bal >= amt THEN Send(w, sh.sp, "m_node", amt)
                        ELSE IF bal = 0 THEN Fail(w, "invalid coins")
                        ELSE SetDebt(cfg, Send(w, sh.sp, "m_node", bal), sh.sp, DebtOf(w, sh.sp) + amt - bal)
                  p1 == Rebased(w, [p0 EXCEPT !.shPl = @ + amt, !.used = @ + sh.size])
              IN IF ~Good(w1) THEN w1 ELSE SetShard(SetPledge(cfg, w1, p1), [sh EXCEPT !.pledge = amt])

\* node/keeper ShardRelease(sp, shard | nil)
ShardRelease(cfg, w, a, sh, withShard) ==
    IF ~Good(w) THEN w
    ELSE IF ~HasPledge(w, a) THEN Fail(w, "pledge not found")
    ELSE LET p0 == Settled(w, PledgeOf(w, a)) IN
         IF ~withShard THEN SetPledge(cfg, w, Rebased(w, p0))
         ELSE LET rp == RepayDebt(cfg, w, sh.sp, <<sh.pledge>>)
                  w1 == Send(rp.w, "m_node", a, rp.coins[1])
              IN IF p0.shPl - sh.pledge < 0 THEN Fail(w1, "negative coin amount")
                 ELSE SetPledge(cfg, w1, Rebased(w, [p0 EXCEPT !.shPl = @ - sh.pledge, !.used = @ - sh.size]))

\* ------------------------------------------------------------------ x/market: workers
EmptyWorker(a) == [a |-> a, storage |-> 0, rew |-> 0, income |-> 0, last |-> 0]
WorkerAppend(cfg, w, sh) ==
    IF ~Good(w) THEN w ELSE
    LET k0 == IF HasWorker(w, sh.sp) THEN WorkerOf(w, sh.sp) ELSE EmptyWorker(sh.sp)
        add == sh.size * (w.h - sh.created) + (IF k0.storage > 0 THEN k0.income * (w.h - k0.last) ELSE 0)
    IN SetWorker(cfg, w, [k0 EXCEPT !.rew = @ + add, !.last = w.h, !.storage = @ + sh.size, !.income = @ + sh.size])
WorkerRelease(cfg, w, sh) ==
    IF ~Good(w) THEN w
    ELSE IF ~HasWorker(w, sh.sp) THEN Fail(w, "worker not found")
    ELSE LET k0 == WorkerOf(w, sh.sp) IN
         IF k0.income - sh.size < 0 THEN Fail(w, "negative income")
         ELSE SetWorker(cfg, w, [k0 EXCEPT !.rew = @ + k0.income * (w.h - k0.last), !.income = @ - sh.size,
                                           !.storage = @ - sh.size, !.last = w.h])

\* market/keeper Withdraw(order): settle the order, return [w, refund (coins)] ; refund moved market -> order
Withdraw(cfg, w, o) ==
    IF ~Good(w) THEN [w |-> w, refund |-> 0]
    ELSE IF o.amount = 0 THEN [w |-> Fail(w, "invalid amount"), refund |-> 0]
    ELSE LET dust == o.amount * Mega - o.size * o.replica * o.dur
             step(acc, id) ==
                 IF ~HasShard(acc.w, id) \/ ShardOf(acc.w, id).order > o.id THEN acc
                 ELSE LET sh == ShardOf(acc.w, id) IN
                      IF sh.status = SCompleted /\ sh.order = o.id
                      THEN [w |-> WorkerRelease(cfg, acc.w, sh), mu |-> acc.mu + sh.size * (ShardEnd(sh) - acc.w.h)]
                      ELSE IF sh.status = SWaiting THEN [acc EXCEPT !.mu = @ + sh.size * o.dur]
                      ELSE IF sh.status = SCompleted /\ sh.order < o.id
                      THEN [acc EXCEPT !.mu = @ + SumSeq(SelectSeq(sh.renew, LAMBDA r : r.order = o.id), LAMBDA r : sh.size * r.dur)]
                      ELSE acc
             r == FoldLeft(step, [w |-> w, mu |-> dust], o.shards)
             refund == IF r.mu < 0 THEN 0 ELSE r.mu \div Mega
         IN IF r.mu < 0 THEN [w |-> Fail(r.w, "negative refund"), refund |-> 0]
            ELSE [w |-> Send(r.w, "m_market", "m_order", refund), refund |-> refund]

\* market/keeper Claim(sp): returns [w, coin]
MarketClaim(cfg, w, a) ==
    IF ~HasWorker(w, a) THEN [w |-> w, coin |-> 0]
    ELSE LET k0 == WorkerOf(w, a)
             tot == k0.rew + k0.income * (w.h - k0.last)
         IN IF tot \div Mega = 0 THEN [w |-> w, coin |-> 0]
            ELSE [w |-> SetWorker(cfg, w, [k0 EXCEPT !.rew = tot % Mega, !.last = w.h]), coin |-> tot \div Mega]

\* ------------------------------------------------------------------ x/model
MetaEnd(m) == m.created + m.dur
AliasKey(m) == m.owner \o "-" \o m.alias \o "-g"
\* setDataExpireBlock / removeDataExpireBlock
ExpSet(w, d, h)    == [w EXCEPT !.expData = SchedAdd(@, h, d)]
ExpRemove(w, d, h) == [w EXCEPT !.expData = SchedRemove(@, h, d)]

DeleteMeta(w, d) ==
    IF ~Good(w) THEN w
    ELSE IF ~HasMeta(w, d) THEN Fail(w, "dataId not found")
    ELSE LET m == MetaOf(w, d) IN
         ExpRemove([DelMetaRec(w, d) EXCEPT !.aliases = Del(@, "data", d)], d, MetaEnd(m))

\* ResetMetaDuration(meta): latest paid end over the completed shards of the listed orders
ResetMetaDuration(w, m) ==
    LET ends == {ShardPaidEnd(ShardOf(w, id)) : id \in
                    {id2 \in UNION {Rng(OrderOf(w, oid).shards) : oid \in {o2 \in Rng(m.orders) : HasOrder(w, o2)}} :
                        HasShard(w, id2) /\ ShardOf(w, id2).status = SCompleted}}
        e0 == IF ends = {} THEN 0 ELSE MaxOf(ends)
        e  == Max2(e0, w.h)
        nd == e - m.created
    IN IF m.dur # nd THEN [w |-> ExpSet(ExpRemove(w, m.data, MetaEnd(m)), m.data, e), m |-> [m EXCEPT !.dur = nd]]
       ELSE [w |-> w, m |-> m]

ExtendMetaDuration(cfg, w, d, e) ==
    IF ~Good(w) \/ ~HasMeta(w, d) THEN w
    ELSE LET m == MetaOf(w, d) IN
         IF m.dur < e - m.created
         THEN SetMeta(cfg, ExpSet(ExpRemove(w, d, MetaEnd(m)), d, e), [m EXCEPT !.dur = e - m.created])
         ELSE w

\* order/keeper TerminateOrder(id, refund): pay the refund to the owner's payment address, remove the order
OrderTerminate(w, o, refund) ==
    IF ~Good(w) THEN w
    ELSE IF o.status # OCompleted THEN Fail(w, "invalid order status")
    ELSE IF ~HasPay(w, o.owner) THEN (IF refund = 0 THEN DelOrder(w, o.id) ELSE Fail(w, "module account did does not exist"))
    ELSE DelOrder(Send(w, "m_order", PayOf(w, o.owner), refund), o.id)

\* model/keeper TerminateOrder(order)
ModelTerminateOrder(cfg, w, o) ==
    LET wd == Withdraw(cfg, w, o)
        rel(acc, id) == IF HasShard(acc, id) /\ ShardOf(acc, id).status = SCompleted /\ ShardOf(acc, id).order = o.id
                        THEN ShardRelease(cfg, acc, ShardOf(acc, id).sp, ShardOf(acc, id), TRUE) ELSE acc
        w1 == FoldLeft(rel, wd.w, o.shards)
    IN OrderTerminate(w1, o, wd.refund)

\* model/keeper RollbackMeta(dataId)
RollbackMeta(cfg, w, d) ==
    IF ~Good(w) \/ ~HasMeta(w, d) THEN w
    ELSE LET m == MetaOf(w, d) IN
         IF m.commits = <<>> THEN ExpRemove([DelMetaRec(w, d) EXCEPT !.aliases = Del(@, "data", d)], d, MetaEnd(m))
         ELSE LET m1 == [m EXCEPT !.status = MComplete, !.commit = m.commits[Len(m.commits)].c, !.order = m.orders[Len(m.orders)]]
                  r == ResetMetaDuration(w, m1)
              IN SetMeta(cfg, r.w, r.m)

\* model/keeper CancelOrder(id): refund the whole amount, roll the model back, remove the order
CancelOrder(cfg, w, o) ==
    LET payDid == IF o.paydid # "" THEN o.paydid ELSE o.owner IN
    IF ~Good(w) THEN w
    ELSE IF ~HasPay(w, payDid) THEN Fail(w, "refund order failed")
    ELSE LET w1 == Send(w, "m_order", PayOf(w, payDid), o.amount)
             w2 == IF HasMeta(w1, o.data) /\ MetaOf(w1, o.data).order = o.id THEN RollbackMeta(cfg, w1, o.data) ELSE w1
         IN DelOrder(w2, o.id)

\* model/keeper UpdateMeta(order) at order completion (op 1 / 2) or renewal (op 3)
AuthorisedFor(m, did) == m.owner = did \/ InSeq(did, m.rw)
UpdateMeta(cfg, w, o) ==
    IF ~Good(w) THEN w
    ELSE IF ~HasMeta(w, o.data) THEN Fail(w, "not found")
    ELSE LET m == MetaOf(w, o.data) IN
    IF ~AuthorisedFor(m, o.owner) THEN Fail(w, "no permission")
    ELSE IF o.op = 1 THEN
        SetMeta(cfg, w, [m EXCEPT !.commit = o.commit, !.commits = Append(@, [c |-> o.commit, h |-> w.h]),
                                  !.orders = Append(@, o.id), !.status = MComplete])
    ELSE IF o.op = 3 THEN
        SetMeta(cfg, w, [m EXCEPT !.order = o.id, !.orders = Append(@, o.id), !.status = MComplete])
    ELSE IF o.op = 2 THEN
        IF m.commits = <<>> THEN Fail(w, "index out of range")
        ELSE LET last == m.commits[Len(m.commits)].c
                 \* settle trailing orders that carry the replaced commit
                 RECURSIVE Settle(_, _, _)
                 Settle(ww, ords, ids) ==
                     IF ~Good(ww) \/ ords = <<>> THEN [w |-> ww, ords |-> ords, ids |-> ids]
                     ELSE LET oid == ords[Len(ords)] IN
                          IF ~HasOrder(ww, oid) THEN [w |-> Fail(ww, "last order not found"), ords |-> ords, ids |-> ids]
                          ELSE LET lo == OrderOf(ww, oid) IN
                               IF lo.commit # last THEN [w |-> ww, ords |-> ords, ids |-> ids]
                               ELSE Settle(ModelTerminateOrder(cfg, ww, lo), SubSeq(ords, 1, Len(ords) - 1), ids \cup Rng(lo.shards))
                 st == Settle(w, m.orders, {})
                 w1 == FoldLeft(LAMBDA acc, id : DelShard(acc, id), st.w, SetToSortSeq(st.ids, <))
                 m1 == [m EXCEPT !.commit = o.commit,
                                 !.commits = Append(SubSeq(m.commits, 1, Len(m.commits) - 1), [c |-> o.commit, h |-> w.h]),
                                 !.orders = Append(st.ords, o.id), !.status = MComplete]
                 r == ResetMetaDuration(w1, m1)
             IN IF ~Good(w1) THEN w1 ELSE SetMeta(cfg, r.w, r.m)
    ELSE Fail(w, "invalid operation")

\* ------------------------------------------------------------------ provider selection (x/node/keeper/reputation.go, node.go)
Pow10Ceil(total) == IF total <= 1 THEN 1 ELSE IF total <= 10 THEN 10 ELSE IF total <= 100 THEN 100 ELSE 1000
\* RandomIndex(seed, total, count): sequence of indices (0-based), consuming one decimal digit per draw;
\* once the seed is exhausted the selection is completed with the lowest unused indices
RECURSIVE RandomIndexR(_, _, _, _)
RandomIndexR(seed, total, count, idx) ==
    IF count = 0 THEN idx
    ELSE IF seed = 0 THEN
        LET unused == SelectSeq([i \in 1..total |-> i - 1], LAMBDA v : ~InSeq(v, idx))
        IN idx \o SubSeq(unused, 1, count)
    ELSE LET rs == (seed % Pow10Ceil(total)) % total IN
         IF InSeq(rs, idx) THEN RandomIndexR(seed \div 10, total, count, idx)
         ELSE RandomIndexR(seed \div 10, total, count - 1, Append(idx, rs))
RandomIndex(seed, total, count) == IF total <= count THEN <<>> ELSE RandomIndexR(seed, total, count, <<>>)

\* heapify / buildHeap / SelectNodes on sequences of node records (1-based here, 0-based in Go)
Better(a, b) == a.alive > b.alive \/ (a.alive = b.alive /\ a.rep > b.rep)   \* child a replaces parent b
Swap(seq, i, j) == [seq EXCEPT ![i] = seq[j], ![j] = seq[i]]
Heapify(seq, pos0) == \* pos0 is 0-based
    LET size == Len(seq)  cl == 2 * pos0 + 1  cr == 2 * pos0 + 2
        s1 == IF cl < size /\ Better(seq[cl + 1], seq[pos0 + 1]) THEN Swap(seq, pos0 + 1, cl + 1) ELSE seq
        s2 == IF cr < size /\ Better(s1[cr + 1], s1[pos0 + 1]) THEN Swap(s1, pos0 + 1, cr + 1) ELSE s1
    IN s2
BuildHeap(seq) ==
    LET size == Len(seq) IN
    IF size < 2 THEN seq
    ELSE FoldLeft(LAMBDA acc, k : Heapify(acc, (size \div 2) - k), seq, [k \in 1..(size \div 2) |-> k])
SelectNodes(size0, nodes) ==
    LET size == Min2(size0, Len(nodes))
        pass(acc, i) == SubSeq(acc, 1, i) \o BuildHeap(SubSeq(acc, i + 1, Len(acc)))
        sorted == FoldLeft(pass, nodes, [k \in 1..(size + 1) |-> k - 1])
    IN SubSeq(sorted, 1, size)

FreeCap(w, a) == IF HasPledge(w, a) THEN PledgeOf(w, a).cap - PledgeOf(w, a).used ELSE -1
NodeOk(w, n, size) == HasBits(n.status, SPStatus) /\ n.rep >= RepFloor /\ FreeCap(w, n.a) >= size

\* GetNextSuperNodes: returns [w (cursor updated), node | none]
NextSuper(w, ignore, size) ==
    LET supers == SelectSeq(w.nodes, LAMBDA n : n.role = 1)
        w0 == IF w.round = -1 THEN [w EXCEPT !.round = 0] ELSE w
        n == Len(supers)
        start == IF w0.round >= n THEN 0 ELSE w0.round
        order == [k \in 1..n |-> ((start + k - 1) % n) + 1]
        okIdx == SelectSeq(order, LAMBDA i : ~InSeq(supers[i].a, ignore) /\ NodeOk(w0, supers[i], size))
    IN IF n = 0 \/ okIdx = <<>> THEN [w |-> w0, found |-> FALSE, node |-> [a |-> ""]]
       ELSE LET i == okIdx[1] IN
            [w |-> [w0 EXCEPT !.round = IF i >= n THEN 0 ELSE i], found |-> TRUE, node |-> supers[i]]

\* RandomSP(count, ignore, size): returns [w, sps (sequence of account names)]
RandomSP(w, count, ignore, size) ==
    LET ns == NextSuper(w, ignore, size)
        sc == IF ns.found THEN 1 ELSE 0
        cands0 == SelectSeq(ns.w.nodes, LAMBDA n : n.role = 0 /\ NodeOk(ns.w, n, size))
        cands == SelectSeq(cands0, LAMBDA n : ~InSeq(n.a, ignore))
        names(seq) == [i \in 1..Len(seq) |-> seq[i].a]
    IN IF sc = 1 /\ count = 1 THEN [w |-> ns.w, sps |-> <<ns.node.a>>]
       ELSE IF sc + Len(cands) <= count THEN [w |-> ns.w, sps |-> (IF sc = 1 THEN <<ns.node.a>> ELSE <<>>) \o names(cands)]
       ELSE LET cnt == count - sc
                maxc == Min2(Len(cands), 2 * cnt)
                sel == SelectNodes(maxc, cands)
                idx == RandomIndex(ns.w.seed, maxc, cnt)
            IN [w |-> ns.w, sps |-> (IF sc = 1 THEN <<ns.node.a>> ELSE <<>>) \o [i \in 1..Len(idx) |-> sel[idx[i] + 1].a]]

\* ------------------------------------------------------------------ x/order
NewShard(w, o, sp) == [id |-> w.sc, order |-> o.id, status |-> SWaiting, sp |-> sp, from |-> "", pledge |-> 0,
                       size |-> o.size, created |-> 0, dur |-> 0, renew |-> <<>>]
\* GenerateShards(order, sps): returns [w, o]
GenerateShards(w, o, sps) ==
    IF sps = <<>> THEN [w |-> w, o |-> o]
    ELSE LET add(acc, sp) == [w |-> [SetShard(acc.w, NewShard(acc.w, acc.o, sp)) EXCEPT !.sc = @ + 1],
                              o |-> [acc.o EXCEPT !.shards = Append(@, acc.w.sc)]]
             r == FoldLeft(add, [w |-> w, o |-> o], sps)
         IN [w |-> r.w, o |-> [r.o EXCEPT !.status = ODataReady]]

\* sao/keeper GetSps(order, dataId): returns [w, sps, ok]
SpsOfModelOrder(w, d) ==
    IF ~HasMeta(w, d) \/ ~HasOrder(w, MetaOf(w, d).order) THEN <<>>
    ELSE LET ids == SelectSeq(OrderOf(w, MetaOf(w, d).order).shards, LAMBDA id : HasShard(w, id) /\ HasNode(w, ShardOf(w, id).sp))
         IN [i \in 1..Len(ids) |-> ShardOf(w, ids[i]).sp]
GetSps(w, o) ==
    IF o.op = 1 THEN
        LET r == RandomSP(w, o.replica, <<>>, o.size) IN
        IF o.replica <= 0 \/ o.replica > Len(r.sps) THEN [w |-> Fail(r.w, "invalid replica"), sps |-> <<>>]
        ELSE [w |-> r.w, sps |-> r.sps]
    ELSE IF o.op = 2 THEN
        IF o.replica <= 0 THEN [w |-> Fail(w, "invalid replica"), sps |-> <<>>]
        ELSE LET cur == SpsOfModelOrder(w, o.data) IN
             IF o.replica < Len(cur) THEN [w |-> w, sps |-> SubSeq(cur, 1, o.replica)]
             ELSE IF o.replica > Len(cur) THEN
                 LET r == RandomSP(w, o.replica - Len(cur), cur, o.size) IN
                 IF o.replica > Len(cur) + Len(r.sps) THEN [w |-> Fail(r.w, "invalid replica"), sps |-> <<>>]
                 ELSE [w |-> r.w, sps |-> cur \o r.sps]
             ELSE [w |-> w, sps |-> cur]
    ELSE [w |-> Fail(w, "unsupported operation"), sps |-> <<>>]

TimeoutAdd(w, h, id) == [w EXCEPT !.timeoutQ = SchedAdd(@, h, id)]
ExpShardAdd(w, h, id) == [w EXCEPT !.expShardQ = SchedAdd(@, h, id)]

\* ------------------------------------------------------------------ x/sao message handlers
\* JWS verification (x/sao/keeper/verify.go + sao-did): the DID named by the header's kid must be proposal.owner and the
\* signature must verify, over exactly this proposal, against
\*   - a did:key : the key that IS the DID;
\*   - a did:sid : a key of the sid document named by the kid's version-id, which must be one of the versions of THAT DID
\*     (any version: rotation adds a document, it does not revoke the older ones).
\* ev.signer names the key that really signed: a did:key ("d2") or a sid document ("s1" = root document of s1, "s1_v2").
\* sigmode: ok = header names the signer's own DID; kidspoof = header names proposal.owner whoever signed (for a sid
\* document as signer: version-id still points at the signer's document); stale = signature over another payload.
SigOk(cfg, s, ev) ==
    IF InSeq(ev.signer, cfg.didOrder) THEN ev.sigmode = "ok" /\ ev.signer = ev.owner
    ELSE /\ ev.sigmode \in {"ok", "kidspoof"}
         /\ IsSidDocOnChain(s, ev.signer)
         /\ (ev.sigmode = "ok" => SidOfDoc(s, ev.signer) = ev.owner)
         /\ InSeq(ev.signer, DocsOf(s, ev.owner))
BoundTo(w, acc, did) == Has(w.bindings, "acc", acc) /\ Get(w.bindings, "acc", acc).did = did
SegHas(seg, tok) == \E i \in 1..Len(seg) : seg[i] = tok    \* strings.Contains on distinct uuid tokens

TxStore(cfg, s, ev) ==
    LET w0 == Work(s)
        base == ev.cseg[1]
        newc == IF Len(ev.cseg) > 1 THEN ev.cseg[2] ELSE ev.cseg[1]
        size == IF ev.size = 0 THEN 1 ELSE ev.size
    IN
    IF ~SigOk(cfg, s, ev) THEN Tx(s, Fail(w0, "invalid signature"))
    ELSE IF ev.commit = "" \/ ev.data = "" \/ ev.op < 1 \/ ev.op > 2 \/ ev.dur < MinDuration THEN Tx(s, Fail(w0, "invalid argument"))
    ELSE IF ~HasMeta(s, ev.data) /\ ~SegHas(ev.cseg, ev.data) THEN Tx(s, Fail(w0, "metadata not found"))
    ELSE IF HasMeta(s, ev.data) /\ ~AuthorisedFor(MetaOf(s, ev.data), ev.owner) THEN Tx(s, Fail(w0, "no permission"))
    ELSE IF ev.paydid # "" /\ (~InSeq(ev.paydid, cfg.didOrder) \/ ~HasPay(s, ev.paydid) \/ PayOf(s, ev.paydid) # ev.creator) THEN Tx(s, Fail(w0, "payment did"))
    ELSE IF ~HasNode(s, ev.gw) THEN Tx(s, Fail(w0, "node not found"))
    ELSE IF ev.timeout = 0 THEN Tx(s, Fail(w0, "invalid timeout"))
    ELSE
    LET bound == ev.paydid = "" /\ BoundTo(s, ev.creator, ev.owner)
        isProv == IF ev.paydid # "" THEN TRUE
                  ELSE IF bound THEN FALSE
                  ELSE (ev.gw = ev.creator /\ ev.provider = ev.creator) \/ (ev.gw = ev.provider /\ HasNode(s, ev.provider) /\ InSeq(ev.creator, NodeOf(s, ev.provider).tx))
    IN IF ev.paydid = "" /\ ~bound /\ ~isProv THEN Tx(s, Fail(w0, "invalid provider"))
    ELSE
    LET o0 == [id |-> s.oc, creator |-> ev.creator, owner |-> ev.owner, provider |-> ev.gw, status |-> OPending,
               replica |-> ev.replica, shards |-> <<>>, amount |-> 0, size |-> size, op |-> ev.op, created |-> s.h,
               timeout |-> ev.timeout, dur |-> ev.dur, data |-> ev.data, commit |-> newc, paydid |-> ev.paydid]
        g == IF isProv THEN GetSps(w0, o0) ELSE [w |-> w0, sps |-> <<>>]
        amount == Price(size, ev.replica, ev.dur)
        payDid == IF ev.paydid # "" THEN ev.paydid ELSE ev.owner
    IN IF ~Good(g.w) THEN Tx(s, g.w)
       ELSE IF ~HasPay(s, payDid) THEN Tx(s, Fail(g.w, "payment address not set"))
       ELSE IF amount <= 0 THEN Tx(s, Fail(g.w, "negative coin amount"))
       ELSE IF BalOf(s, PayOf(s, payDid)) < amount THEN Tx(s, Fail(g.w, "insufficient coin"))
       ELSE
       LET w1 == Send(g.w, PayOf(s, payDid), "m_order", amount)
           gs == GenerateShards([w1 EXCEPT !.oc = @ + 1], [o0 EXCEPT !.amount = amount], g.sps)
           o1 == gs.o
           w2 == SetOrder(gs.w, o1)
           w3 == IF isProv THEN TimeoutAdd(w2, s.h + ev.timeout, o1.id) ELSE w2
       IN IF HasMeta(s, ev.data) THEN
              LET m == MetaOf(s, ev.data) IN
              IF m.order > o1.id THEN Tx(s, Fail(w3, "version conflict"))
              ELSE IF ~HasOrder(s, m.order) \/ OrderOf(s, m.order).status # OCompleted THEN Tx(s, Fail(w3, "invalid last order"))
              ELSE IF m.commit # base THEN Tx(s, Fail(w3, "invalid commit id"))
              ELSE IF m.status # MComplete THEN Tx(s, Fail(w3, "unexpected meta status"))
              ELSE IF MetaEnd(m) < s.h THEN Tx(s, Fail(w3, "metadata should have expired"))
              ELSE LET newEnd == s.h + ev.dur
                       w4 == IF MetaEnd(m) < newEnd THEN ExpSet(ExpRemove(w3, m.data, MetaEnd(m)), m.data, newEnd) ELSE w3
                       m1 == [m EXCEPT !.dur = IF MetaEnd(m) < newEnd THEN newEnd - m.created ELSE @,
                                       !.status = ev.op, !.commit = newc, !.order = o1.id]
                   IN Tx(s, SetMeta(cfg, w4, m1))
          ELSE \* NewMeta
              LET m == [data |-> ev.data, owner |-> ev.owner, alias |-> ev.alias, order |-> o1.id, commit |-> newc, commits |-> <<>>,
                        orders |-> <<>>, status |-> MNew, dur |-> ev.dur, created |-> s.h, ro |-> ev.ro, rw |-> <<>>]
              IN IF ~(ev.data \in Rng(cfg.datas)) THEN Tx(s, Fail(w3, "invalid data id"))
                 ELSE IF Has(s.aliases, "key", AliasKey(m)) THEN Tx(s, Fail(w3, "model exists"))
                 ELSE Tx(s, ExpSet([SetMeta(cfg, w3, m) EXCEPT !.aliases = PutSorted(@, "data", [key |-> AliasKey(m), data |-> ev.data],
                                                                          LAMBDA d : IndexOf(cfg.datas, d))],
                                   ev.data, s.h + ev.dur))

TxReady(cfg, s, ev) ==
    LET w0 == Work(s) IN
    IF ~HasOrder(s, ev.order) THEN Tx(s, Fail(w0, "order not found"))
    ELSE LET o == OrderOf(s, ev.order)
             isProv == (o.provider = ev.creator /\ ev.provider = ev.creator) \/
                       (o.provider = ev.provider /\ HasNode(s, ev.provider) /\ InSeq(ev.creator, NodeOf(s, ev.provider).tx))
         IN IF ~isProv THEN Tx(s, Fail(w0, "invalid provider"))
            ELSE IF o.status # OPending THEN Tx(s, Fail(w0, "expect pending order"))
            ELSE LET g == GetSps(w0, o) IN
                 IF ~Good(g.w) THEN Tx(s, g.w)
                 ELSE LET gs == GenerateShards(g.w, o, g.sps) IN
                      Tx(s, TimeoutAdd(SetOrder(gs.w, gs.o), s.h + o.timeout, o.id))

FirstShardOf(w, o, sp) ==
    LET ids == SelectSeq(o.shards, LAMBDA id : HasShard(w, id) /\ ShardOf(w, id).sp = sp) IN
    IF ids = <<>> THEN [id |-> -1] ELSE ShardOf(w, ids[1])

TxComplete(cfg, s, ev) ==
    LET w0 == Work(s) IN
    IF ev.size = 0 THEN Tx(s, Fail(w0, "invalid shard size"))
    ELSE IF ~HasOrder(s, ev.order) THEN Tx(s, Fail(w0, "order not found"))
    ELSE IF ~ActsFor(s, ev.creator, ev.provider) THEN Tx(s, Fail(w0, "invalid provider"))
    ELSE
    LET o == OrderOf(s, ev.order)
        sh == FirstShardOf(s, o, ev.provider)
    IN IF sh.id = -1 THEN Tx(s, Fail(w0, "not the order shard provider"))
    ELSE IF sh.status = SCompleted THEN Tx(s, Fail(w0, "already completed"))
    ELSE IF sh.status # SWaiting /\ sh.status # SMigrating THEN Tx(s, Fail(w0, "invalid shard status"))
    ELSE IF ev.size # sh.size THEN Tx(s, Fail(w0, "invalid shard size"))
    ELSE IF ~HasMeta(s, o.data) THEN Tx(s, Fail(w0, "metadata not found"))
    ELSE
    LET m == MetaOf(s, o.data) IN
    IF m.status # MNew /\ m.status # MComplete /\ m.status # o.op THEN Tx(s, Fail(w0, "meta status differs"))
    ELSE IF m.orders # <<>> /\ (~HasOrder(s, m.orders[Len(m.orders)]) \/
                                OrderOf(s, m.orders[Len(m.orders)]).status \in {OPending, 1, ODataReady}) THEN Tx(s, Fail(w0, "invalid last order"))
    ELSE IF sh.status = SMigrating THEN
        \* ---- migration hand-over
        IF sh.from = "" THEN Tx(s, Fail(w0, "empty from"))
        ELSE LET old == FirstShardOf(s, o, sh.from) IN
             IF old.id = -1 THEN Tx(s, Fail(w0, "nil old shard"))
             ELSE
             LET w1 == ShardRelease(cfg, w0, sh.from, old, TRUE)
                 inProgId == old.order
                 sh1 == [sh EXCEPT !.order = old.order, !.renew = old.renew, !.created = s.h, !.dur = ShardEnd(old) - s.h]
                 w2 == WorkerAppend(cfg, WorkerRelease(cfg, w1, old), sh1)
                 w3 == DelShard(w2, old.id)
                 \* the shard lists of ALL orders of the model are brought in line with the hand-over: nobody lists the old shard any
                 \* more; the new shard is listed once by exactly the orders it belongs to (the order in progress and its queued
                 \* renewals); an order that lists nothing any more goes
                 ids == <<o.id, old.order>> \o m.orders
                 belongs(id) == id = old.order \/ \E q \in 1..Len(old.renew) : old.renew[q].order = id
                 fix(acc, k) ==
                     IF InSeq(ids[k], SubSeq(ids, 1, k - 1)) \/ ~HasOrder(acc, ids[k]) THEN acc
                     ELSE LET oo == OrderOf(acc, ids[k])
                              kept == SelectSeq(oo.shards, LAMBDA x : x # old.id /\ (x # sh.id \/ belongs(oo.id)))
                              ns == IF belongs(oo.id) /\ ~InSeq(sh.id, kept) THEN Append(kept, sh.id) ELSE kept
                          IN IF ns = <<>> THEN DelOrder(acc, oo.id) ELSE SetOrder(acc, [oo EXCEPT !.shards = ns])
                 w4 == FoldLeft(fix, w3, [k \in 1..Len(ids) |-> k])
                 sh2 == [sh1 EXCEPT !.status = SCompleted]
                 w5 == ExtendMetaDuration(cfg, ExpShardAdd(w4, ShardEnd(sh2), sh.id), o.data, ShardEnd(sh2))
                 w6 == ShardPledge(cfg, w5, sh2)
                 w7 == IF Good(w6) /\ HasNode(w6, ev.provider)
                       THEN SetNode(cfg, w6, [NodeOf(w6, ev.provider) EXCEPT !.rep = @ + (o.amount \div o.replica)]) ELSE w6
             IN IF old.order # o.id /\ ~HasOrder(s, old.order) THEN Tx(s, Fail(w0, "order in progress missing")) ELSE Tx(s, w7)
    ELSE
        \* ---- normal completion
        LET sh1 == [sh EXCEPT !.created = s.h, !.dur = o.dur]
            w1 == WorkerAppend(cfg, w0, sh1)
            first == o.status # OCompleted
            w2 == IF first THEN UpdateMeta(cfg, w1, o) ELSE w1
            w3 == IF first THEN (IF o.amount = 0 THEN Fail(w2, "invalid amount") ELSE Send(w2, "m_order", "m_market", o.amount)) ELSE w2
            o1 == IF first THEN [o EXCEPT !.status = OCompleted] ELSE o
            sh2 == [sh1 EXCEPT !.status = SCompleted]
            w4 == ExtendMetaDuration(cfg, ExpShardAdd(w3, ShardEnd(sh2), sh.id), o.data, ShardEnd(sh2))
            w5 == ShardPledge(cfg, w4, sh2)
            w6 == IF Good(w5) /\ HasNode(w5, ev.provider)
                  THEN SetNode(cfg, w5, [NodeOf(w5, ev.provider) EXCEPT !.rep = @ + (o.amount \div o.replica)]) ELSE w5
        IN Tx(s, SetOrder(w6, o1))

TxCancel(cfg, s, ev) ==
    LET w0 == Work(s) IN
    IF ~HasOrder(s, ev.order) THEN Tx(s, Fail(w0, "order not found"))
    ELSE LET o == OrderOf(s, ev.order)
             isCreator == o.creator = ev.creator \/
                          (ev.provider = o.provider /\ (o.creator = o.provider \/ (HasNode(s, ev.provider) /\ InSeq(o.creator, NodeOf(s, ev.provider).tx))))
         IN IF ~isCreator THEN Tx(s, Fail(w0, "only order creator allowed"))
            ELSE IF o.status = OCompleted THEN Tx(s, Fail(w0, "already completed"))
            ELSE IF ~ActsFor(s, ev.creator, ev.provider) THEN Tx(s, Fail(w0, "invalid provider"))
            ELSE IF \E j \in 1..Len(o.shards) : ~HasShard(s, o.shards[j]) THEN Tx(s, Fail(w0, "shard not found"))
            ELSE LET rm(acc, id) == DelShard(IF HasShard(acc, id) /\ ShardOf(acc, id).status = SCompleted
                                             THEN ShardRelease(cfg, acc, ShardOf(acc, id).sp, ShardOf(acc, id), TRUE) ELSE acc, id)
                     w1 == FoldLeft(rm, w0, o.shards)
                 IN Tx(s, CancelOrder(cfg, w1, o))

TxTerminate(cfg, s, ev) ==
    LET w0 == Work(s) IN
    IF ~ActsFor(s, ev.creator, ev.provider) THEN Tx(s, Fail(w0, "invalid provider"))
    ELSE IF ~SigOk(cfg, s, ev) THEN Tx(s, Fail(w0, "invalid signature"))
    ELSE IF ~HasMeta(s, ev.data) THEN Tx(s, Fail(w0, "dataId not found"))
    ELSE LET m == MetaOf(s, ev.data) IN
         IF ~AuthorisedFor(m, ev.owner) THEN Tx(s, Fail(w0, "no permission"))
         ELSE LET step(acc, oid) ==
                      IF ~Good(acc.w) \/ ~HasOrder(acc.w, oid) THEN acc
                      ELSE LET oo == OrderOf(acc.w, oid) IN [w |-> ModelTerminateOrder(cfg, acc.w, oo), ids |-> acc.ids \cup Rng(oo.shards)]
                  r == FoldLeft(step, [w |-> w0, ids |-> {}], m.orders)
                  w1 == FoldLeft(LAMBDA acc, id : DelShard(acc, id), r.w, SetToSortSeq(r.ids, <))
              IN Tx(s, DeleteMeta(w1, ev.data))

TxRenew(cfg, s, ev) ==
    LET w0 == Work(s) IN
    IF ~SigOk(cfg, s, ev) THEN Tx(s, Fail(w0, "invalid signature"))
    ELSE IF ~ActsFor(s, ev.creator, ev.provider) THEN Tx(s, Fail(w0, "invalid provider"))
    ELSE IF ev.dur < MinDuration \/ ev.dur > 63072000 THEN Tx(s, Fail(w0, "invalid duration"))
    ELSE
    LET one(w, d) ==
          IF ~Good(w) \/ ~HasMeta(w, d) THEN w
          ELSE LET m == MetaOf(w, d) IN
          IF m.owner # ev.owner \/ m.status # MComplete \/ ~HasOrder(w, m.order) THEN w
          ELSE LET o == OrderOf(w, m.order) IN
          IF \E j \in 1..Len(o.shards) : ~HasShard(w, o.shards[j]) \/ ShardOf(w, o.shards[j]).status \notin {SCompleted, SMigrating} THEN w
          ELSE IF o.status # OCompleted \/ o.created + o.dur < w.h THEN w
          \* the renewal order belongs to (and is paid by) the MODEL's owner - who signed it -, not to whoever made the last order
          ELSE IF ~HasPay(w, m.owner) THEN w
          ELSE LET amount == Price(o.size, o.replica, ev.dur) IN
          IF BalOf(w, PayOf(w, m.owner)) < amount \/ amount <= 0 THEN w
          ELSE
          LET no == [id |-> w.oc, creator |-> ev.creator, owner |-> m.owner, provider |-> ev.provider, status |-> o.status,
                     replica |-> o.replica, shards |-> o.shards, amount |-> amount, size |-> o.size, op |-> 3, created |-> w.h,
                     timeout |-> ev.timeout, dur |-> ev.dur, data |-> o.data, commit |-> o.commit, paydid |-> ""]
              w1 == SetOrder([Send(w, PayOf(w, m.owner), "m_market", amount) EXCEPT !.oc = @ + 1], no)
              perShard(acc, id) ==
                  LET sh == ShardOf(acc.w, id) IN
                  IF sh.status = SMigrating THEN acc
                  ELSE LET np == ShardPledgeAmount(sh.size, ev.dur)
                           extra == np - sh.pledge
                           bal == BalOf(acc.w, sh.sp)
                           wa == IF extra <= 0 THEN acc.w
                                 ELSE LET wb == IF bal >= extra THEN Send(acc.w, sh.sp, "m_node", extra)
                                                ELSE SetDebt(cfg, Send(acc.w, sh.sp, "m_node", bal), sh.sp, DebtOf(acc.w, sh.sp) + extra - bal)
                                          p == PledgeOf(wb, sh.sp)
                                      IN SetPledge(cfg, wb, [p EXCEPT !.shPl = @ + extra])
                           sh1 == [sh EXCEPT !.pledge = IF extra > 0 THEN np ELSE @,
                                             !.renew = Append(@, [order |-> no.id, pledge |-> np, dur |-> ev.dur])]
                       IN [w |-> SetShard(wa, sh1), e |-> Max2(acc.e, ShardPaidEnd(sh1))]
              r == FoldLeft(perShard, [w |-> w1, e |-> 0], o.shards)
              w2 == ExtendMetaDuration(cfg, r.w, d, r.e)
          IN UpdateMeta(cfg, w2, no)      \* a failure here fails the whole transaction
    IN Tx(s, FoldLeft(one, w0, ev.datas))

TxMigrate(cfg, s, ev) ==
    LET w0 == Work(s) IN
    IF ~ActsFor(s, ev.creator, ev.provider) THEN Tx(s, Fail(w0, "invalid provider"))
    ELSE
    LET perData(w, d) ==
          IF ~HasMeta(w, d) THEN w
          ELSE LET m == MetaOf(w, d)
                   rev == [i \in 1..Len(m.orders) |-> m.orders[Len(m.orders) + 1 - i]]
                   perOrder(acc, oid) ==
                       IF ~HasOrder(acc.w, oid) THEN acc
                       ELSE LET oo == OrderOf(acc.w, oid) IN
                       IF oo.commit \in acc.seen THEN acc
                       ELSE LET acc1 == [acc EXCEPT !.seen = @ \cup {oo.commit}]
                                old == FirstShardOf(acc.w, oo, ev.provider)
                            IN IF old.id = -1 \/ old.status # SCompleted THEN acc1
                               ELSE LET existing == SelectSeq(oo.shards, LAMBDA id : HasShard(acc.w, id))
                                    IN IF \E j \in 1..Len(existing) : ShardOf(acc.w, existing[j]).from = ev.provider THEN acc1
                                       ELSE LET ign == [j \in 1..Len(existing) |-> ShardOf(acc.w, existing[j]).sp]
                                                r == RandomSP(acc.w, 1, ign, old.size)
                                            IN IF r.sps = <<>> THEN [acc1 EXCEPT !.w = r.w]
                                               ELSE LET ns == [id |-> r.w.sc, order |-> oo.id, status |-> SMigrating, sp |-> r.sps[1], from |-> ev.provider,
                                                               pledge |-> 0, size |-> old.size, created |-> 0, dur |-> 0, renew |-> <<>>]
                                                    IN [acc1 EXCEPT !.w = SetOrder([SetShard(r.w, ns) EXCEPT !.sc = @ + 1], [oo EXCEPT !.shards = Append(@, ns.id)])]
               IN FoldLeft(perOrder, [w |-> w, seen |-> {}], rev).w
    IN Tx(s, FoldLeft(perData, w0, ev.datas))

TxPermission(cfg, s, ev) ==
    LET w0 == Work(s) IN
    IF ~ActsFor(s, ev.creator, ev.provider) THEN Tx(s, Fail(w0, "invalid provider"))
    ELSE IF ~SigOk(cfg, s, ev) THEN Tx(s, Fail(w0, "invalid signature"))
    ELSE IF \E i \in 1..Len(ev.ro \o ev.rw) : ~HasPay(s, (ev.ro \o ev.rw)[i]) THEN Tx(s, Fail(w0, "invalid did"))
    ELSE IF ~HasMeta(s, ev.data) THEN Tx(s, Fail(w0, "dataId not found"))
    ELSE IF MetaOf(s, ev.data).owner # ev.owner THEN Tx(s, Fail(w0, "no permission"))
    ELSE Tx(s, SetMeta(cfg, w0, [MetaOf(s, ev.data) EXCEPT !.ro = ev.ro, !.rw = ev.rw]))

\* ------------------------------------------------------------------ x/node message handlers
TxCreate(cfg, s, ev) ==
    LET w0 == Work(s) IN
    IF HasNode(s, ev.creator) THEN Tx(s, Fail(w0, "already registered"))
    ELSE Tx(s, SetNode(cfg, w0, [a |-> ev.creator, status |-> 0, rep |-> 10000, role |-> 0, val |-> "", tx |-> <<>>, alive |-> s.h]))

\* super.go CheckDelegationShare / CheckNodeShare on the projected staking tables
DelegShares(w, d, v) == LET r == SelectSeq(w.delegs, LAMBDA x : x.d = d /\ x.v = v) IN IF r = <<>> THEN -1 ELSE r[1].shares
ShareOk(cfg, w, d, v, sub) ==
    /\ DelegShares(w, d, v) >= 0 /\ Has(w.vals, "v", v)
    /\ LET tot == Get(w.vals, "v", v).shares IN tot # sub /\ DelegShares(w, d, v) * cfg.shareDen >= (tot - sub) * cfg.shareNum
CheckNodeShare(cfg, w, n) == \* returns node (role/val possibly set)
    IF n.val # "" THEN (IF ShareOk(cfg, w, n.a, n.val, 0) THEN [n EXCEPT !.role = 1] ELSE n)
    ELSE LET mine == SelectSeq(w.delegs, LAMBDA x : x.d = n.a /\ ShareOk(cfg, w, n.a, x.v, 0)) IN
         IF mine = <<>> THEN n ELSE [n EXCEPT !.role = 1, !.val = mine[1].v]

TxReset(cfg, s, ev) ==
    LET w0 == Work(s) IN
    IF ~HasNode(s, ev.creator) THEN Tx(s, Fail(w0, "node not found"))
    ELSE IF ev.val # "" /\ NodeOf(s, ev.creator).val # ev.val /\ ~Has(s.vals, "v", ev.val) THEN Tx(s, Fail(w0, "validator not found"))
    ELSE LET n0 == NodeOf(s, ev.creator)
             n1 == [n0 EXCEPT !.status = IF ev.status # 0 THEN ev.status ELSE @,
                              !.val = IF ev.val # "" THEN ev.val ELSE @,
                              !.tx = IF ev.tx # <<>> THEN ev.tx ELSE @,
                              !.alive = s.h, !.role = 0]
             n2 == IF HasBits(ev.status, SuperReq) /\ HasPledge(s, ev.creator) /\ PledgeOf(s, ev.creator).cap >= cfg.vstorThreshold
                   THEN CheckNodeShare(cfg, w0, n1) ELSE n1
         IN Tx(s, SetNode(cfg, w0, n2))

TxAddVstorage(cfg, s, ev) ==
    LET w0 == Work(s)
        amount == CeilDiv(ev.size, Mega)
        bytes == amount * Mega
    IN IF ~HasNode(s, ev.creator) THEN Tx(s, Fail(w0, "node not found"))
       ELSE IF amount = 0 THEN Tx(s, Fail(w0, "invalid coins"))
       ELSE LET w1 == Send(w0, ev.creator, "m_node", amount)
                p0 == IF HasPledge(s, ev.creator) THEN [PledgeOf(s, ev.creator) EXCEPT !.capPl = @ + amount]
                      ELSE [a |-> ev.creator, cap |-> 0, used |-> 0, capPl |-> amount, shPl |-> 0, rew |-> 0, rdebt |-> 0]
                p1 == [Settled(w0, p0) EXCEPT !.cap = @ + bytes]
                p2 == Rebased(w0, p1)
                w2 == [w1 EXCEPT !.pool = [@ EXCEPT !.pledged = @ + amount, !.storage = @ + bytes]]
                n == NodeOf(s, ev.creator)
                w3 == IF p2.cap >= cfg.vstorThreshold /\ n.role = 0 /\ HasBits(n.status, SuperReq)
                      THEN SetNode(cfg, w2, CheckNodeShare(cfg, w0, n)) ELSE w2
            IN Tx(s, SetPledge(cfg, w3, p2))

TxRemoveVstorage(cfg, s, ev) ==
    LET w0 == Work(s)
        amount == ev.size \div Mega
        bytes == amount * Mega
    IN IF ~HasNode(s, ev.creator) THEN Tx(s, Fail(w0, "node not found"))
       ELSE IF ~HasPledge(s, ev.creator) THEN Tx(s, Fail(w0, "not pledged"))
       ELSE IF amount = 0 THEN Tx(s, Fail(w0, "too small"))
       ELSE LET p0 == PledgeOf(s, ev.creator) IN
            IF bytes > p0.cap - p0.used THEN Tx(s, Fail(w0, "no enough available vstorage"))
            ELSE IF p0.capPl - amount < 0 THEN Tx(s, Fail(w0, "negative coin amount"))
            ELSE LET w1 == Send(w0, "m_node", ev.creator, amount)
                     p1 == Rebased(w0, [Settled(w0, [p0 EXCEPT !.capPl = @ - amount]) EXCEPT !.cap = @ - bytes])
                     w2 == [w1 EXCEPT !.pool = [@ EXCEPT !.pledged = @ - amount, !.storage = @ - bytes]]
                     n == NodeOf(s, ev.creator)
                     w3 == IF p1.cap < cfg.vstorThreshold /\ n.role = 1 THEN SetNode(cfg, w2, [n EXCEPT !.role = 0]) ELSE w2
                 IN Tx(s, SetPledge(cfg, w3, p1))

TxClaim(cfg, s, ev) ==
    LET w0 == Work(s) IN
    IF ~HasPledge(s, ev.creator) THEN Tx(s, Fail(w0, "pledge not found"))
    ELSE LET p0 == Rebased(w0, Settled(w0, PledgeOf(s, ev.creator)))
             claim == p0.rew \div 1000
             p1 == [p0 EXCEPT !.rew = @ % 1000]
             mc == MarketClaim(cfg, w0, ev.creator)
             rp == RepayDebt(cfg, mc.w, ev.creator, <<claim, mc.coin>>)
             \* storage income that repaid debt moves from the market escrow into the node escrow (collateral)
             w1 == Send(Send(Send(rp.w, "m_market", "m_node", mc.coin - rp.coins[2]), "m_node", ev.creator, rp.coins[1]), "m_market", ev.creator, rp.coins[2])
         IN Tx(s, SetPledge(cfg, w1, p1))

TxPayAddr(cfg, s, ev) == \* key DIDs only (did:key): x/did UpdatePaymentAddress
    LET w0 == Work(s) IN
    IF HasPay(s, ev.did) THEN Tx(s, Fail(w0, "cannot change"))
    ELSE IF ev.acc # ev.creator THEN Tx(s, Fail(w0, "invalid account id"))
    ELSE IF Has(s.kids, "a", ev.acc) THEN Tx(s, Fail(w0, "kid exists"))
    ELSE Tx(s, [w0 EXCEPT !.pay = PutSorted(@, "did", [did |-> ev.did, a |-> ev.acc], LAMBDA d : IndexOf(cfg.didOrder, d)),
                          !.kids = PutSorted(@, "a", [did |-> ev.did, a |-> ev.acc], LAMBDA a : Rank(cfg, a))])

\* ------------------------------------------------------------------ x/did: sid DIDs (Binding, key rotation, payment address)
\* The did tables have no consensus-relevant iteration order: the spec appends, conformance compares them as sets.
AccDid(acc, did) == "ad_" \o acc \o "_" \o did
DidExists(w, did) == Has(w.versions, "doc", did)
AccListOf(w, did) == IF Has(w.accLists, "did", did) THEN Get(w.accLists, "did", did).accs ELSE <<>>
BoundDid(w, acc) == IF Has(w.bindings, "acc", acc) THEN Get(w.bindings, "acc", acc).did ELSE ""
\* accounts: cfg.accs are the cosmos accounts of this chain; any other name ("e1", ...) is an eip155 (Ethereum) account,
\* bound with an EIP-191 proof (sigmode as for cosmos accounts: ok | wrongkey | none | replay)
IsCosmosAcc(cfg, a) == InSeq(a, cfg.accs)
FreshWindow == 900     \* EXPIRE_DURATION, seconds; ev.amount = proof timestamp - block time

TxBinding(cfg, s, ev) ==
    LET w0 == Work(s)  ad == AccDid(ev.acc, ev.did) IN
    IF ev.amount + FreshWindow < 0 THEN Tx(s, Fail(w0, "out of date"))
    ELSE IF InSeq(ad, AccListOf(s, ev.did)) \/ InSeq(ad, s.accAuths) THEN Tx(s, Fail(w0, "auth exists"))
    ELSE IF Has(s.accIds, "ad", ad) /\ Get(s.accIds, "ad", ad).acc # ev.acc THEN Tx(s, Fail(w0, "invalid account id"))
    ELSE IF Has(s.bindings, "acc", ev.acc) THEN Tx(s, Fail(w0, "binding exists"))
    ELSE IF ev.sigmode # "ok" THEN Tx(s, Fail(w0, "invalid binding proof"))
    ELSE IF DidExists(s, ev.did) /\ BoundDid(s, ev.creator) # ev.did THEN Tx(s, Fail(w0, "invalid creator"))
    ELSE
    LET w1 == IF DidExists(s, ev.did) THEN w0
              ELSE [w0 EXCEPT !.versions = Append(@, [doc |-> ev.did, versions |-> <<ev.did>>]),
                              \* the first account becomes the payment address only if it is an account on this chain
                              !.pay = IF HasPay(s, ev.did) \/ ~IsCosmosAcc(cfg, ev.acc) THEN @ ELSE Append(@, [did |-> ev.did, a |-> ev.acc])]
        w2 == [w1 EXCEPT !.accAuths = Append(@, ad),
                         !.accLists = IF Has(@, "did", ev.did) THEN Put(@, "did", [did |-> ev.did, accs |-> Append(AccListOf(s, ev.did), ad)])
                                      ELSE Append(@, [did |-> ev.did, accs |-> <<ad>>]),
                         !.bindings = Append(@, [acc |-> ev.acc, did |-> ev.did]),
                         !.accIds = IF Has(@, "ad", ad) THEN @ ELSE Append(@, [ad |-> ad, acc |-> ev.acc])]
    IN Tx(s, w2)

TxDidUpdate(cfg, s, ev) ==   \* ev.tx = accounts to remove, ev.datas = accounts to keep, ev.commit = past seed ("" = fresh)
    LET w0 == Work(s)
        rm == [i \in 1..Len(ev.tx) |-> AccDid(ev.tx[i], ev.did)] \o ev.ro    \* ev.ro: further account dids named outright
        keep == [i \in 1..Len(ev.datas) |-> AccDid(ev.datas[i], ev.did)]
        lst == AccListOf(s, ev.did)
    IN IF BoundDid(s, ev.creator) # ev.did THEN Tx(s, Fail(w0, "invalid creator"))
       ELSE IF ev.amount + FreshWindow < 0 THEN Tx(s, Fail(w0, "out of date"))
       ELSE IF rm = <<>> \/ keep = <<>> THEN Tx(s, Fail(w0, "nothing to update"))
       ELSE IF ~Has(s.accLists, "did", ev.did) \/ Len(lst) # Len(rm) + Len(keep) THEN Tx(s, Fail(w0, "invalid auth count"))
       ELSE IF \E i \in 1..Len(lst) : ~InSeq(lst[i], rm) /\ ~InSeq(lst[i], keep) THEN Tx(s, Fail(w0, "unhandled account did"))
       ELSE IF ev.commit # "" /\ Has(s.seeds, "did", ev.did) /\ InSeq(ev.commit, Get(s.seeds, "did", ev.did).accs) THEN Tx(s, Fail(w0, "seed exists"))
       ELSE IF ~HasPay(s, ev.did) THEN Tx(s, Fail(w0, "payment address not set"))
       ELSE IF \E i \in 1..Len(rm) : ~Has(s.accIds, "ad", rm[i]) THEN Tx(s, Fail(w0, "account id not found"))
       ELSE IF \E i \in 1..Len(rm) : Get(s.accIds, "ad", rm[i]).acc = PayOf(s, ev.did) THEN Tx(s, Fail(w0, "cannot unbind payment address"))
       ELSE
       LET rmAcc == {Get(s.accIds, "ad", rm[i]).acc : i \in 1..Len(rm)}
           newDoc == ev.did \o "_v" \o ToString(Len(Get(s.versions, "doc", ev.did).versions))
           seed == IF ev.commit # "" THEN ev.commit ELSE "seed-" \o ev.did \o "-" \o ToString(Len(Get(s.versions, "doc", ev.did).versions))
       IN Tx(s, [w0 EXCEPT !.bindings = SelectSeq(@, LAMBDA b : b.acc \notin rmAcc),
                           !.accIds = SelectSeq(@, LAMBDA x : ~InSeq(x.ad, rm)),
                           !.versions = Put(@, "doc", [doc |-> ev.did, versions |-> Append(Get(s.versions, "doc", ev.did).versions, newDoc)]),
                           !.accAuths = SelectSeq(@, LAMBDA x : ~InSeq(x, rm)) \o SelectSeq(keep, LAMBDA x : ~InSeq(x, s.accAuths)),
                           !.accLists = Put(@, "did", [did |-> ev.did, accs |-> SelectSeq(lst, LAMBDA x : ~InSeq(x, rm))]),
                           !.seeds = IF Has(@, "did", ev.did) THEN Put(@, "did", [did |-> ev.did, accs |-> Append(Get(@, "did", ev.did).accs, seed)])
                                     ELSE Append(@, [did |-> ev.did, accs |-> <<seed>>])])

TxPayAddrSid(cfg, s, ev) ==
    LET w0 == Work(s) IN
    IF HasPay(s, ev.did) /\ PayOf(s, ev.did) = ev.acc THEN Tx(s, Fail(w0, "same payment address"))
    ELSE IF BoundDid(s, ev.creator) # ev.did THEN Tx(s, Fail(w0, "invalid creator"))
    ELSE IF ~IsCosmosAcc(cfg, ev.acc) THEN Tx(s, Fail(w0, "invalid account id"))   \* an eip155 account cannot pay on this chain
    ELSE IF BoundDid(s, ev.acc) # ev.did THEN Tx(s, Fail(w0, "binding not found"))
    ELSE Tx(s, [w0 EXCEPT !.pay = Put(@, "did", [did |-> ev.did, a |-> ev.acc])])

\* ------------------------------------------------------------------ fault reports (x/sao ReportFaults / RecoverFaults, x/node fault store)
\* strings.Contains on the symbolic commit tokens: the empty string is contained in everything
CommitContains(hay, needle) == needle = "" \/ hay = needle
FaultId(f) == "F_" \o f.provider \o "_" \o ToString(f.shard)
IsFishman(cfg, a) == InSeq(a, cfg.fishmen)
SetFault(w, f) ==
    [w EXCEPT !.faults = IF Has(@, "id", f.id) THEN Put(@, "id", f) ELSE Append(@, f),
              !.faultIdx = IF Has(@, "id", f.id) THEN @ ELSE Append(@, [provider |-> f.provider, shard |-> f.shard, id |-> f.id])]
DelFault(w, f) == [w EXCEPT !.faults = Del(@, "id", f.id), !.faultIdx = Del(@, "id", f.id)]
FishSet(w, key) == [w EXCEPT !.fishing = IF Has(@, "key", key) THEN @ ELSE Append(@, [key |-> key, amt |-> "0.000000000000000000"])]
ZeroDec == "0.000000000000000000"

TxReportFaults(cfg, s, ev) ==
    LET w0 == Work(s) IN
    IF ~HasNode(s, ev.creator) THEN Tx(s, Fail(w0, "node not found"))
    ELSE IF ~IsFishman(cfg, ev.creator) THEN Tx(s, Fail(w0, "not a fishmen"))
    ELSE
    LET one(w, f) ==
          IF ev.provider # f.provider \/ ~HasMeta(w, f.data) \/ ~HasOrder(w, f.order) THEN w
          ELSE LET o == OrderOf(w, f.order) IN
          IF o.data # f.data \/ CommitContains(o.commit, f.commit) THEN w
          ELSE IF ~(InSeq(f.shard, o.shards) /\ HasShard(w, f.shard) /\ ShardOf(w, f.shard).sp = f.provider
                    /\ ShardEnd(ShardOf(w, f.shard)) > w.h) THEN w
          ELSE IF Has(w.faults, "id", FaultId(f)) THEN w      \* an existing report is only ever re-read with its own reporter: skipped
          ELSE SetFault(w, [id |-> FaultId(f), order |-> f.order, data |-> f.data, shard |-> f.shard, commit |-> f.commit,
                            provider |-> f.provider, reporter |-> ev.creator, confirms |-> <<[s |-> "+", w |-> ""]>>, status |-> 1, penalty |-> 0])
    IN Tx(s, FoldLeft(one, w0, ev.faults))

TxRecoverFaults(cfg, s, ev) ==
    LET w0 == Work(s) IN
    IF ~HasNode(s, ev.creator) THEN Tx(s, Fail(w0, "node not found"))
    ELSE IF ev.creator = ev.provider /\ (NodeOf(s, ev.creator).status \div 4) % 2 = 0 THEN Tx(s, Fail(w0, "invalid status"))
    ELSE IF ev.creator # ev.provider /\ ~IsFishman(cfg, ev.creator) THEN Tx(s, Fail(w0, "not a fishmen"))
    ELSE
    LET one(w, f) ==
          IF ev.provider # f.provider \/ ~HasMeta(w, f.data) \/ ~HasOrder(w, f.order) THEN w
          ELSE LET o == OrderOf(w, f.order) IN
          IF o.data # f.data \/ ~CommitContains(o.commit, f.commit) THEN w
          ELSE LET mine == SelectSeq(o.shards, LAMBDA id : HasShard(w, id) /\ ShardOf(w, id).sp = f.provider) IN
          IF mine = <<>> \/ ShardEnd(ShardOf(w, mine[1])) <= w.h THEN w
          ELSE IF ~Has(w.faults, "id", FaultId(f)) THEN w
          ELSE LET g == Get(w.faults, "id", FaultId(f)) IN
          IF g.data # f.data \/ g.order # f.order THEN w
          ELSE
          LET own == ev.provider = ev.creator /\ g.provider = ev.creator
              \* a fishman's vote counts once the provider declared recovery (or he voted before)
              votes == ~own /\ g.status = 3
          IN IF ~own /\ ~votes THEN w
             ELSE LET g1 == [g EXCEPT !.commit = f.commit, !.status = IF own THEN 3 ELSE @,
                                      !.confirms = IF own THEN @ ELSE Append(@, [s |-> "-", w |-> ev.creator])]
                      plus == Len(SelectSeq(g1.confirms, LAMBDA v : v.s = "+"))
                      minus == Len(SelectSeq(g1.confirms, LAMBDA v : v.s = "-"))
                  IN IF plus = minus /\ HasPledge(w, g.provider) THEN
                         \* recovered: the penalty is 0 (penalties never accrue), zero fishing rewards are booked under the
                         \* reporter's and the (original) voters' keys, the report is dropped
                         LET keys == <<g.reporter>> \o [i \in 1..Len(g.confirms) |-> g.confirms[i].w]
                         IN \* the reporter's implicit first "+" has no name: booking its share writes under an EMPTY store
                            \* key, which panics ("key is nil"); the transaction fails, so such a report can never be cleared
                            IF \E i \in 1..Len(keys) : keys[i] = "" THEN Fail(w, "key is nil")
                            ELSE DelFault(FoldLeft(LAMBDA acc, k : FishSet(acc, k), w, keys), g)
                     ELSE SetFault(w, g1)
    IN Tx(s, FoldLeft(one, w0, ev.faults))

\* ------------------------------------------------------------------ x/staking messages and the x/node staking hooks
\* Exchange rate 1 (no slashing in the modelled world): shares = tokens.  vol is the package variable
\* sharesBeforeModified of x/node/keeper/hooks.go together with the delegation it was recorded for:
\* "0" when clear, otherwise "<shares>.000000000000000000" (the delegation it belongs to is not projected).
VolOf(n, d, v) == ToString(n) \o ".000000000000000000"
ValOf(w, v) == Get(w.vals, "v", v)
SetDeleg(cfg, w, d, v, shares) ==
    LET others == SelectSeq(w.delegs, LAMBDA x : ~(x.d = d /\ x.v = v))
        rankV(x) == IndexOf(cfg.vals, x.v) * 1000 + IndexOf(cfg.accsRaw, x.d)
        rec == [d |-> d, v |-> v, shares |-> shares]
    IN IF shares < 0 THEN [w EXCEPT !.delegs = others]
       ELSE [w EXCEPT !.delegs = SelectSeq(others, LAMBDA x : rankV(x) < rankV(rec)) \o <<rec>> \o SelectSeq(others, LAMBDA x : rankV(x) > rankV(rec))]

\* hooks.go verifySuperStorageNodes(valAddr, accAddr, beforeDelegationRemoved); before = shares recorded by the Before hook (or -1)
VerifySuper(cfg, w, v, d, removed, before) ==
    LET cur == DelegShares(w, d, v)
        sub == IF before <= 0 THEN 0 ELSE IF before > cur THEN before - cur ELSE IF removed THEN cur ELSE 0
        mine == SelectSeq(w.delegs, LAMBDA x : x.v = v)
        step(acc, x) ==
            IF ~HasNode(acc, x.d) THEN acc
            ELSE LET n == NodeOf(acc, x.d)
                     demote == IF n.role = 1 THEN SetNode(cfg, acc, [n EXCEPT !.role = 0]) ELSE acc
                 IN IF ~(n.val = "" \/ n.val = v) THEN acc
                    ELSE IF removed /\ x.d = d THEN demote
                    ELSE IF ~HasBits(n.status, SuperReq) THEN demote
                    ELSE IF ~HasPledge(acc, x.d) \/ PledgeOf(acc, x.d).cap < cfg.vstorThreshold THEN demote
                    ELSE IF ShareOk(cfg, acc, x.d, v, sub) THEN (IF n.role = 0 THEN SetNode(cfg, acc, [n EXCEPT !.role = 1, !.val = v]) ELSE acc)
                    ELSE demote
    IN [FoldLeft(step, w, mine) EXCEPT !.vol = "0"]

TxDelegate(cfg, s, ev) ==
    LET w0 == Work(s)  d == ev.creator  v == ev.val  amt == ev.amount IN
    IF ~Has(s.vals, "v", v) \/ amt <= 0 THEN Tx(s, Fail(w0, "no validator"))
    ELSE LET old == DelegShares(s, d, v)
             w1 == IF old >= 0 THEN [w0 EXCEPT !.vol = VolOf(old, d, v)] ELSE w0
             pool == IF ValOf(s, v).status = 3 THEN "m_bonded_tokens_pool" ELSE "m_not_bonded_tokens_pool"
             w2 == Send(w1, d, pool, amt)
         IN IF ~Good(w2) THEN Tx(s, w2)
            ELSE LET w3 == [w2 EXCEPT !.vals = Put(@, "v", [ValOf(s, v) EXCEPT !.shares = @ + amt, !.tokens = @ + amt])]
                     w4 == SetDeleg(cfg, w3, d, v, Max2(old, 0) + amt)
                 IN Tx(s, VerifySuper(cfg, w4, v, d, FALSE, IF old >= 0 THEN old ELSE -1))

\* RemoveValidatorTokensAndShares at the end of x/staking Unbond: an UNBONDED validator that nobody delegates to any more is
\* removed (hook AfterValidatorRemoved: the x/node hook finds no delegator left and clears the process-global)
TakeFromVal(cfg, w, val, amt) ==
    IF val.status = 1 /\ val.shares = amt
    THEN VerifySuper(cfg, [w EXCEPT !.vals = Del(@, "v", val.v)], val.v, "", FALSE, -1)
    ELSE [w EXCEPT !.vals = Put(@, "v", [val EXCEPT !.shares = @ - amt, !.tokens = @ - amt])]

UnbondHs(w, d, v) == LET r == SelectSeq(w.unbond, LAMBDA u : u.d = d /\ u.v = v) IN IF r = <<>> THEN <<>> ELSE r[1].hs
TxUndelegate(cfg, s, ev) ==
    LET w0 == Work(s)  d == ev.creator  v == ev.val  amt == ev.amount IN
    IF ~Has(s.vals, "v", v) \/ amt <= 0 \/ DelegShares(s, d, v) < 0 THEN Tx(s, Fail(w0, "no delegation"))
    ELSE LET old == DelegShares(s, d, v) IN
         IF amt > old THEN Tx(s, Fail(w0, "invalid shares amount"))
         ELSE IF Len(UnbondHs(s, d, v)) >= 7 THEN Tx(s, Fail(w0, "too many unbonding delegation entries"))
         ELSE LET w1 == [w0 EXCEPT !.vol = VolOf(old, d, v),
                                   \* every undelegation adds an unbonding entry (x/staking 0.46 does not merge them)
                                   !.unbond = SelectSeq(@, LAMBDA u : ~(u.d = d /\ u.v = v))
                                              \o <<[d |-> d, v |-> v, hs |-> Append(UnbondHs(s, d, v), s.h)]>>]
                  left == old - amt
                  \* hooks run BEFORE the validator's shares are reduced
                  w2 == IF left = 0 THEN SetDeleg(cfg, VerifySuper(cfg, w1, v, d, TRUE, old), d, v, -1)
                        ELSE VerifySuper(cfg, SetDeleg(cfg, w1, d, v, left), v, d, FALSE, old)
                  w3 == TakeFromVal(cfg, w2, ValOf(s, v), amt)
                  w4 == IF ValOf(s, v).status = 3 THEN Send(w3, "m_bonded_tokens_pool", "m_not_bonded_tokens_pool", amt) ELSE w3
              IN Tx(s, w4)

RedelN(w, d, src, dst) == LET r == SelectSeq(w.redel, LAMBDA x : x.d = d /\ x.src = src /\ x.dst = dst) IN IF r = <<>> THEN 0 ELSE r[1].n
\* MsgBeginRedelegate: Unbond(src) with its hooks, then Delegate(dst) without a bank transfer, with its hooks
TxRedelegate(cfg, s, ev) ==
    LET w0 == Work(s)  d == ev.creator  src == ev.val  dst == ev.val2  amt == ev.amount IN
    IF ~Has(s.vals, "v", src) \/ amt <= 0 \/ DelegShares(s, d, src) < 0 THEN Tx(s, Fail(w0, "no delegation"))
    ELSE LET old == DelegShares(s, d, src) IN
    IF amt > old THEN Tx(s, Fail(w0, "invalid shares amount"))
    ELSE IF src = dst THEN Tx(s, Fail(w0, "self redelegation"))
    ELSE IF ~Has(s.vals, "v", dst) THEN Tx(s, Fail(w0, "bad redelegation dst"))
    ELSE IF \E i \in 1..Len(s.redel) : s.redel[i].d = d /\ s.redel[i].dst = src THEN Tx(s, Fail(w0, "transitive redelegation"))
    ELSE IF RedelN(s, d, src, dst) >= 7 THEN Tx(s, Fail(w0, "too many redelegation entries"))
    ELSE
    LET w1 == [w0 EXCEPT !.vol = VolOf(old, d, src)]
        left == old - amt
        w2 == IF left = 0 THEN SetDeleg(cfg, VerifySuper(cfg, w1, src, d, TRUE, old), d, src, -1)
              ELSE VerifySuper(cfg, SetDeleg(cfg, w1, d, src, left), src, d, FALSE, old)
        w3 == TakeFromVal(cfg, w2, ValOf(s, src), amt)
        \* Delegate to dst (tokens stay in the bonded pool when both validators are bonded)
        oldDst == DelegShares(w3, d, dst)
        w4 == IF oldDst >= 0 THEN [w3 EXCEPT !.vol = VolOf(oldDst, d, dst)] ELSE w3
        w5 == IF ValOf(s, src).status = 3 /\ ValOf(s, dst).status # 3 THEN Send(w4, "m_bonded_tokens_pool", "m_not_bonded_tokens_pool", amt)
              ELSE IF ValOf(s, src).status # 3 /\ ValOf(s, dst).status = 3 THEN Send(w4, "m_not_bonded_tokens_pool", "m_bonded_tokens_pool", amt)
              ELSE w4
        w6 == [w5 EXCEPT !.vals = Put(@, "v", [ValOf(w5, dst) EXCEPT !.shares = @ + amt, !.tokens = @ + amt])]
        w7 == VerifySuper(cfg, SetDeleg(cfg, w6, d, dst, Max2(oldDst, 0) + amt), dst, d, FALSE, IF oldDst >= 0 THEN oldDst ELSE -1)
        \* (stake that leaves an UNBONDED validator is free at once: no redelegation entry is kept - unless the validator
        \* was removed by this very withdrawal: getBeginInfo then does not find it and falls back to the full waiting time)
        w8 == IF ValOf(s, src).status = 1 /\ Has(w7.vals, "v", src) THEN w7
              ELSE [w7 EXCEPT !.redel = SelectSeq(@, LAMBDA x : ~(x.d = d /\ x.src = src /\ x.dst = dst))
                                        \o <<[d |-> d, src |-> src, dst |-> dst, n |-> RedelN(s, d, src, dst) + 1]>>]
    IN Tx(s, w8)

\* ------------------------------------------------------------------ x/staking end-blocker: the active validator set
\* ApplyAndReturnValidatorSetUpdates: the cfg.maxVals validators of highest consensus power (tokens / 10^6; equal power:
\* lower operator address first; power 0 never) form the active set. A validator that enters it is bonded (hook
\* AfterValidatorBonded), in power order; then the bonded ones that are no longer in it begin unbonding, in operator-address
\* order (hook AfterValidatorBeginUnbonding). Both hooks of x/node re-verify every delegator of that validator and clear the
\* process-global. The validator's tokens move between the two staking pools. Unbonding takes three weeks: no validator (and
\* no unbonding delegation) matures in the modelled world, nobody is jailed or slashed.
PowerOf(v) == v.tokens \div 1000000
ValsByPower(cfg, w) ==
    SetToSortSeq({v \in Rng(w.vals) : PowerOf(v) > 0},
                 LAMBDA a, b : PowerOf(a) > PowerOf(b) \/ (PowerOf(a) = PowerOf(b) /\ IndexOf(cfg.vals, a.v) < IndexOf(cfg.vals, b.v)))
TopVals(cfg, w) == LET c == ValsByPower(cfg, w) IN SubSeq(c, 1, Min2(cfg.maxVals, Len(c)))
ActiveSet(cfg, w) == {v.v : v \in Rng(TopVals(cfg, w))}
StakingPending(cfg, w) == \E i \in 1..Len(w.vals) : (w.vals[i].status = 3) # (w.vals[i].v \in ActiveSet(cfg, w))
StakingEnd(cfg, w) ==
    IF ~StakingPending(cfg, w) THEN w
    ELSE
    LET act == ActiveSet(cfg, w)
        entering == SelectSeq(TopVals(cfg, w), LAMBDA v : v.status # 3)
        leaving == SelectSeq(w.vals, LAMBDA v : v.status = 3 /\ v.v \notin act)       \* w.vals is in operator-address order
        bond(acc, v) == VerifySuper(cfg, [Send(acc, "m_not_bonded_tokens_pool", "m_bonded_tokens_pool", v.tokens)
                                             EXCEPT !.vals = Put(@, "v", [v EXCEPT !.status = 3])], v.v, "", FALSE, -1)
        unbond(acc, v) == VerifySuper(cfg, [Send(acc, "m_bonded_tokens_pool", "m_not_bonded_tokens_pool", v.tokens)
                                               EXCEPT !.vals = Put(@, "v", [v EXCEPT !.status = 2])], v.v, "", FALSE, -1)
    IN FoldLeft(unbond, FoldLeft(bond, w, entering), leaving)

\* ------------------------------------------------------------------ blocks
\* sao/keeper HandleTimeoutOrder
HandleTimeoutOrder(cfg, w, id) ==
    IF ~Good(w) \/ ~HasOrder(w, id) THEN w
    ELSE LET o == OrderOf(w, id) IN
    IF o.status = OPending THEN
        \* CancelOrder's error is ignored by the caller; a failed refund leaves everything as it was
        LET c == CancelOrder(cfg, w, o) IN IF Good(c) THEN c ELSE w
    ELSE
    LET expiring == w.h + o.timeout >= o.created + o.dur
        ex == SelectSeq(o.shards, LAMBDA sid : HasShard(w, sid))
        waiting == SelectSeq(ex, LAMBDA sid : ShardOf(w, sid).status = SWaiting)
        done == SelectSeq(ex, LAMBDA sid : ShardOf(w, sid).status \in {SCompleted, SMigrating})
        undone == SelectSeq(ex, LAMBDA sid : ShardOf(w, sid).status \notin {SCompleted, SMigrating})
        sps == [i \in 1..Len(ex) |-> ShardOf(w, ex[i]).sp]
        dropUndone(ww) == FoldLeft(LAMBDA acc, sid : DelShard(acc, sid), ww, undone)
    IN IF waiting = <<>> THEN
           (IF undone # <<>> THEN SetOrder(dropUndone(w), [o EXCEPT !.shards = done]) ELSE w)
       ELSE
       LET r == IF expiring THEN [w |-> w, sps |-> <<>>] ELSE RandomSP(w, Len(waiting), sps, o.size) IN
       IF r.sps = <<>> THEN
           IF expiring \/ w.h - o.created > MaxTries * o.timeout THEN
               IF o.status # OCompleted THEN
                   LET w1 == FoldLeft(LAMBDA acc, sid : DelShard(acc, sid), r.w, o.shards)
                       c == CancelOrder(cfg, w1, o)
                   IN IF Good(c) THEN c ELSE w1
               ELSE
                   LET rep2 == o.replica - Len(waiting)
                       mu == o.amount * Mega - o.size * rep2 * o.dur
                       refund == mu \div Mega
                       w1 == dropUndone(r.w)
                       payDid == IF o.paydid # "" THEN o.paydid ELSE o.owner      \* whoever paid for the order
                       canPay == refund > 0 /\ HasPay(w1, payDid) /\ BalOf(w1, "m_market") >= refund
                       w2 == IF canPay THEN Send(w1, "m_market", PayOf(w1, payDid), refund) ELSE w1
                   IN SetOrder(w2, [o EXCEPT !.replica = rep2, !.shards = done, !.amount = IF refund > 0 THEN @ - refund ELSE @])
           ELSE TimeoutAdd(r.w, w.h + o.timeout, o.id)
       ELSE
           LET reassign(acc, k) ==
                   LET old == ShardOf(acc.w, waiting[k])
                       w1 == SetShard(acc.w, [old EXCEPT !.status = STimeout])
                       ns == NewShard(w1, acc.o, r.sps[k])
                   IN [w |-> [SetShard(w1, ns) EXCEPT !.sc = @ + 1], o |-> [acc.o EXCEPT !.shards = Append(@, ns.id)]]
               rr == FoldLeft(reassign, [w |-> r.w, o |-> o], [k \in 1..Len(r.sps) |-> k])
           IN TimeoutAdd(SetOrder(rr.w, rr.o), w.h + o.timeout, o.id)

\* sao/keeper dropOpenHandOver: the hand-over of a shard that has reached the end of its last paid period has nothing left to
\* take over. The shards still migrating in from its provider sp under an order that lists the expired shard are deleted and
\* taken off the list of every order of the model. The list of order o itself is only shortened (its caller stores or removes
\* it); another order that lists nothing any more is removed.
ModelOrderIds(w, o) == <<o.id>> \o (IF HasMeta(w, o.data) THEN SelectSeq(MetaOf(w, o.data).orders, LAMBDA x : x # o.id) ELSE <<>>)
OpenHandOvers(w, o, sid, sp) ==
    LET ids == ModelOrderIds(w, o)
        listing == {ids[i] : i \in {k \in 1..Len(ids) : HasOrder(w, ids[k]) /\ InSeq(sid, OrderOf(w, ids[k]).shards)}}
        listed == UNION {Rng(OrderOf(w, id).shards) : id \in listing}
    IN {x \in listed : HasShard(w, x) /\ ShardOf(w, x).status = SMigrating /\ ShardOf(w, x).from = sp}
DropOpenHandOver(w, o, sid, sp) ==
    LET gone == OpenHandOvers(w, o, sid, sp)
        w1 == FoldLeft(LAMBDA acc, x : DelShard(acc, x), w, SetToSortSeq(gone, <))
        one(acc, id) ==
            IF ~HasOrder(acc, id) THEN acc
            ELSE LET oo == OrderOf(acc, id)
                     kept == SelectSeq(oo.shards, LAMBDA x : x \notin gone)
                 IN IF Len(kept) = Len(oo.shards) THEN acc
                    ELSE IF id = o.id \/ kept # <<>> THEN SetOrder(acc, [oo EXCEPT !.shards = kept])
                    ELSE DelOrder(acc, id)
    IN IF gone = {} THEN w ELSE FoldLeft(one, w1, ModelOrderIds(w, o))

\* sao/keeper HandleExpiredShard
HandleExpiredShard(cfg, w, sid) ==
    IF ~Good(w) \/ ~HasShard(w, sid) THEN w
    ELSE LET sh == ShardOf(w, sid) IN
    IF ~HasOrder(w, sh.order) THEN w
    ELSE
    LET o0 == OrderOf(w, sh.order)
        w1 == LET r == WorkerRelease(cfg, w, sh) IN IF Good(r) THEN r ELSE w   \* error ignored by the caller
        w2 == IF sh.renew = <<>> THEN
                  LET r == ShardRelease(cfg, w1, sh.sp, sh, TRUE)
                      d == IF Good(r) THEN DelShard(r, sid)
                           ELSE IF r.fail = "negative coin amount" THEN Fail(w1, "PANIC negative coin amount")
                           ELSE DelShard(w1, sid)
                  IN IF Good(d) THEN DropOpenHandOver(d, o0, sid, sh.sp) ELSE d
              ELSE
                  LET nx == sh.renew[1]
                      sh1 == [sh EXCEPT !.renew = Tail(@), !.order = nx.order, !.created = w.h, !.dur = nx.dur]
                      w3 == SetShard(ExpShardAdd(w1, ShardEnd(sh1), sid), sh1)
                  IN IF HasOrder(w3, nx.order) THEN WorkerAppend(cfg, w3, sh1) ELSE WorkerAppend(cfg, w3, sh1)
        o == IF Good(w2) /\ HasOrder(w2, sh.order) THEN OrderOf(w2, sh.order) ELSE o0    \* (its list may just have been shortened)
    IN IF ~Good(w2) THEN w2
       ELSE IF Len(o.shards) = 1 THEN (IF o.shards[1] = sid THEN DelOrder(w2, o.id) ELSE w2)
       ELSE LET i == IndexOf(o.shards, sid)
                rest == IF i = 0 THEN o.shards ELSE SubSeq(o.shards, 1, i - 1) \o SubSeq(o.shards, i + 1, Len(o.shards))
                \* what is still listed may all belong elsewhere (shards migrating in under other orders, copied into this list
                \* when the order was created): the order goes with its last own shard
                \* (a shard that still has this order queued as a renewal - its periods may be offset - is its own as well)
                own == \E j \in 1..Len(rest) : HasShard(w2, rest[j]) /\
                          (ShardOf(w2, rest[j]).order = o.id \/ \E q \in 1..Len(ShardOf(w2, rest[j]).renew) : ShardOf(w2, rest[j]).renew[q].order = o.id)
            IN IF own THEN SetOrder(w2, [o EXCEPT !.shards = rest]) ELSE DelOrder(w2, o.id)

\* EndBlock at the current height (staking -> sao -> node -> model), in app.go's order
EndBlock(cfg, w00) ==
    LET w == StakingEnd(cfg, w00)
        tids == SchedIds(w.timeoutQ, w.h)
        w1 == FoldLeft(LAMBDA acc, id : HandleTimeoutOrder(cfg, acc, id), w, tids)
        w2 == IF Has(w.timeoutQ, "h", w.h) THEN [w1 EXCEPT !.timeoutQ = SchedDelEntry(@, w.h)] ELSE w1
        sids == SchedIds(w2.expShardQ, w2.h)
        w3 == FoldLeft(LAMBDA acc, id : HandleExpiredShard(cfg, acc, id), w2, sids)
        w4 == IF Has(w2.expShardQ, "h", w2.h) /\ Good(w3) THEN [w3 EXCEPT !.expShardQ = SchedDelEntry(@, w.h)] ELSE w3
        \* node: offline detection
        w5 == [w4 EXCEPT !.nodes = [i \in 1..Len(@) |-> IF @[i].alive + cfg.offlineTrigger < w.h /\ @[i].status % 2 = 1
                                                         THEN [@[i] EXCEPT !.status = 0] ELSE @[i]]]
        \* model: expired data
        dids == SchedIds(w5.expData, w5.h)
        w6 == FoldLeft(LAMBDA acc, d : IF HasMeta(acc, d) THEN DeleteMeta(acc, d) ELSE acc, w5, dids)
    IN IF ~Good(w4) THEN w4 ELSE [w6 EXCEPT !.expData = SchedDelEntry(@, w.h)]

SeedAt(cfg, h) ==
    IF cfg.seedMode = "zero" THEN 0
    ELSE IF cfg.seedMode = "small" THEN (h * 7 + cfg.salt) % 10
    ELSE (h * 7919 + cfg.salt * 104729) % 1000003

\* node BeginBlocker reward of one block given the pool.
\* The subsidy halves with the "age" of the reward: the number of halvings of what is left of TOTAL_REWARD. The counter of
\* minted rewards is far beyond 32 bits near a halving point, so the state carries it RELATIVE to its genesis value and the
\* configuration says where genesis stands: cfg.rewardAge (age at genesis; 256 = everything minted) and cfg.toNextAge
\* (coins still to be minted before the age increases; 0 = out of reach).
RewardAge(cfg, w) ==
    IF cfg.rewardAge >= 256 THEN 256
    ELSE IF cfg.toNextAge > 0 /\ w.pool.reward >= cfg.toNextAge THEN cfg.rewardAge + 1 ELSE cfg.rewardAge
Subsidy(cfg, w) == LET a == RewardAge(cfg, w) IN IF a >= 31 THEN 0 ELSE cfg.blockReward \div (2 ^ a)
BlockRewardOf(cfg, w) ==
    IF w.pool.pledged = 0 \/ cfg.blockReward = 0 THEN 0
    ELSE IF w.pool.pledged < cfg.baseline THEN Min2(Subsidy(cfg, w), ((w.pool.pledged * cfg.apyNum) \div cfg.apyDen) \div (cfg.halvingPeriod \div 2))
    ELSE Subsidy(cfg, w)
\* k consecutive BeginBlocks with an unchanged pool: heights h+1..h+k
RECURSIVE BeginBlocks(_, _, _)
BeginBlocks(cfg, w, k) ==
    LET r == BlockRewardOf(cfg, w)
        w1 == [w EXCEPT !.h = @ + k, !.seed = SeedAt(cfg, w.h + k)]
    IN IF r = 0 \/ k = 0 THEN w1
       \* the age changes inside these k blocks: one block at a time
       ELSE IF k > 1 /\ RewardAge(cfg, [w EXCEPT !.pool.reward = @ + (k - 1) * r]) # RewardAge(cfg, w)
            THEN BeginBlocks(cfg, BeginBlocks(cfg, w, 1), k - 1)
       ELSE IF w.pool.storage = 0 THEN Fail(w1, "PANIC division by zero")
       ELSE LET units == Units(w.pool.storage)
                inexact == (r * 1000) % units # 0
            IN [w1 EXCEPT !.supply = @ + k * r, !.bal = [@ EXCEPT !["m_node"] = @ + k * r],
                          !.pool = [@ EXCEPT !.reward = @ + k * r, !.acc = @ + k * ((r * 1000) \div units), !.blocks = @ + k],
                          !.inexact = IF inexact THEN <<"pool.acc">> ELSE @]

NextScheduled(cfg, w) ==
    LET hs == {w.timeoutQ[i].h : i \in 1..Len(w.timeoutQ)} \cup {w.expShardQ[i].h : i \in 1..Len(w.expShardQ)}
              \cup {w.expData[i].h : i \in 1..Len(w.expData)}
              \cup {w.nodes[i].alive + cfg.offlineTrigger + 1 : i \in {j \in 1..Len(w.nodes) : w.nodes[j].status % 2 = 1}}
              \cup (IF StakingPending(cfg, w) THEN {w.h} ELSE {})      \* the validator set is brought up to date at the next end-block
        fut == {x \in hs : x >= w.h}
    IN IF fut = {} THEN -1 ELSE MinOf(fut)

\* Blocks(n): End(h), Begin(h+1), ..., End(h+n-1), Begin(h+n). Heights at which nothing is scheduled are skipped in one jump.
RECURSIVE AdvanceBlocks(_, _, _)
AdvanceBlocks(cfg, w, n) ==
    IF n = 0 \/ ~Good(w) THEN w
    ELSE LET nx == NextScheduled(cfg, w) IN
         IF nx = -1 \/ nx >= w.h + n THEN BeginBlocks(cfg, w, n)
         ELSE IF nx > w.h THEN AdvanceBlocks(cfg, BeginBlocks(cfg, w, nx - w.h), n - (nx - w.h))
         ELSE LET e == EndBlock(cfg, w) IN
              IF ~Good(e) THEN e ELSE AdvanceBlocks(cfg, BeginBlocks(cfg, e, 1), n - 1)

DoBlocks(cfg, s, ev) ==
    LET w == AdvanceBlocks(cfg, Work(s), ev.n) IN
    IF Good(w) THEN [st |-> Strip(w), res |-> "ok"] ELSE [st |-> Strip(w), res |-> "PANIC"]

\* ------------------------------------------------------------------ dispatch
Apply(cfg, s, ev) ==
    CASE ev.kind = "Blocks"         -> DoBlocks(cfg, s, ev)
      [] ev.kind = "Store"          -> TxStore(cfg, s, ev)
      [] ev.kind = "Ready"          -> TxReady(cfg, s, ev)
      [] ev.kind = "Complete"       -> TxComplete(cfg, s, ev)
      [] ev.kind = "Cancel"         -> TxCancel(cfg, s, ev)
      [] ev.kind = "Terminate"      -> TxTerminate(cfg, s, ev)
      [] ev.kind = "Renew"          -> TxRenew(cfg, s, ev)
      [] ev.kind = "Migrate"        -> TxMigrate(cfg, s, ev)
      [] ev.kind = "Permission"     -> TxPermission(cfg, s, ev)
      [] ev.kind = "Create"         -> TxCreate(cfg, s, ev)
      [] ev.kind = "Reset"          -> TxReset(cfg, s, ev)
      [] ev.kind = "AddVstorage"    -> TxAddVstorage(cfg, s, ev)
      [] ev.kind = "RemoveVstorage" -> TxRemoveVstorage(cfg, s, ev)
      [] ev.kind = "Claim"          -> TxClaim(cfg, s, ev)
      [] ev.kind = "Send"           -> (IF ev.amount <= 0 THEN Tx(s, Fail(Work(s), "invalid coins")) ELSE Tx(s, Send(Work(s), ev.creator, ev.acc, ev.amount)))
      [] ev.kind = "PayAddr"        -> TxPayAddr(cfg, s, ev)
      [] ev.kind = "ReportFaults"   -> TxReportFaults(cfg, s, ev)
      [] ev.kind = "RecoverFaults"  -> TxRecoverFaults(cfg, s, ev)
      [] ev.kind = "Delegate"       -> TxDelegate(cfg, s, ev)
      [] ev.kind = "Undelegate"     -> TxUndelegate(cfg, s, ev)
      [] ev.kind = "Redelegate"     -> TxRedelegate(cfg, s, ev)
      [] ev.kind = "Binding"        -> TxBinding(cfg, s, ev)
      [] ev.kind = "DidUpdate"      -> TxDidUpdate(cfg, s, ev)
      [] ev.kind = "PayAddrSid"     -> TxPayAddrSid(cfg, s, ev)
      [] OTHER                      -> [st |-> s, res |-> "unmodelled"]
=============================================================================
