------------------------------- MODULE Trace -------------------------------
(* Trace validation: every line of an ndjson trace recorded from the REAL code
   (harness/cmd/saoharness) is one step; TLC evaluates every property formula of
   Props.tla on the OBSERVED pre/post states of every step.  All state is logged,
   so the trace spec never branches: validation is linear in trace length.
   Several traces may be concatenated; a "genesis" line starts a new one.

   Variables are only the line index and the ghost record, so TLC's state stays
   tiny; the observed chain state is read from the (constant) Trace.  Failures are
   reported per formula and line through PrintT and counted in TLC registers; the
   post-condition prints one COUNT line per formula (exercised / failed) and fails
   if the whole trace was not consumed. *)
EXTENDS Props, Chain, Json

CONSTANTS TraceFile, CheckConformance

Trace == ndJsonDeserialize(TraceFile)

VARIABLES l, gh
vars == <<l, gh>>

X(i) == [pre |-> Trace[i - 1].post, ev |-> Trace[i].ev, out |-> Trace[i].out, post |-> Trace[i].post]

GhostInit(g) ==
    [supply0 |-> g.post.supply, reward0 |-> g.post.pool.reward, claimable0 |-> ClaimableMilli(g.post),
     claimedNode |-> 0, dustq |-> 0, dustr |-> 0, cfg |-> g.cfg, start |-> TRUE,
     earn |-> [i \in 1..Len(g.post.workers) |->
                 LET w == g.post.workers[i]  m == MuAdd(MuOf(w.rew), MuOf(w.income * (g.post.h - w.last)))
                 IN [a |-> w.a, q |-> m.q, r |-> m.r, cq |-> 0]]]

OrderDust(o) == o.amount * Mega - o.size * o.replica * o.dur
GhostStep(g, x) ==
    LET nd == MuSumSeq(SelectSeq(NewOrders(x), LAMBDA o : o.replica > 0), LAMBDA o : Max2(0, OrderDust(o)))
        wd == Len(SelectSeq(GoneOrders(x), LAMBDA o : o.status = OCompleted))
              + Len(SelectSeq(x.pre.orders, LAMBDA o : HasOrder(x.post, o.id) /\ (OrderOf(x.post, o.id).amount < o.amount \/ OrderOf(x.post, o.id).replica < o.replica)))
        d2 == MuAdd([q |-> g.dustq, r |-> g.dustr], MuAdd(nd, [q |-> wd, r |-> 0]))
        \* bytes x blocks stored during this step, per provider (only block steps let time pass)
        earnAdd(acc, sh) ==
            LET e == EarnOf([earn |-> acc], sh.sp)
                blocks == Max2(0, Min2(ShardPaidEnd(sh), x.post.h) - x.pre.h)
                m == MuAdd([q |-> e.q, r |-> e.r], MuOf(sh.size * blocks))
            IN Put(acc, "a", [e EXCEPT !.q = m.q, !.r = m.r])
        earn1 == IF Kind(x) = "Blocks" THEN FoldLeft(earnAdd, g.earn, CompletedShards(x.pre)) ELSE g.earn
        earn2 == IF Kind(x) = "Claim" /\ Ok(x)
                 THEN LET e == EarnOf([earn |-> earn1], x.ev.creator) IN Put(earn1, "a", [e EXCEPT !.cq = @ - Delta(x, "m_market")])
                 ELSE earn1
    IN [g EXCEPT !.earn = earn2, !.claimedNode = @ + (IF Kind(x) = "Claim" /\ Ok(x) THEN -Delta(x, "m_node") ELSE 0),
                 !.dustq = d2.q, !.dustr = d2.r, !.start = FALSE]

\* ---------------------------------------------------------------------------
Names == <<
  "C02_NoHalt",
  "C04_ChargeExact", "C04_ClientEscrowClosed", "C04_RefundToPayerOnly", "C04_OrderEscrowExact", "C04_NoStuckPayment", "C04_IncomeIsBytesBlocks",
  "C05_FullRefund", "C05_CleanRollback", "C05_TimeoutRefund", "C05_TimeoutRollback",
  "C06_OrderEscrow", "C06_MarketEscrow", "C06_NodeEscrow", "C06_DidEscrow", "C06_EntitledNeverFails",
  "C07_UsedWithinCap", "C07_ProviderEscrowClosed", "C07_PledgeBackToPledger",
  "C08_MintedEqualsCounter", "C08_ClaimsWithinMinted", "C08_MintOnlyInBlocks", "C08_MintBound", "C08_ClaimExact",
  "C09_ModelChangeAuthorised",
  "C10_CompleteByAssignee", "C10_NodeSelfOnly", "C10_CancelByCreator", "C10_PayerConsent",
  "C11_KeptWhilePaid", "C11_ReleasedAtEnd", "C11_ModelOutlivesShards", "C11_NothingOverdue",
  "C12_Rescheduled", "C12_StoredOrderUntouched", "C12_ResolvedByBound",
  "C13_OrderShardsExist", "C13_ShardListedByItsOrder", "C13_CompletedShardScheduled", "C13_AliasBijection",
  "C14_UsedIsSum", "C14_WorkerIsSum", "C14_ShardPledgedIsSum", "C14_PoolIsSum",
  "C15_Placement",
  "C16_IdsFresh", "C16_OneInFlight", "C16_BaseIsLatest", "C16_HistoryChain" >>

Bump(i) == TLCSet(i, TLCGet(i) + 1)
V(app, ok) == [app |-> app, ok |-> ~app \/ ok]

Verdict(name, x, g) ==
  LET s == x.post IN
  CASE name = "C02_NoHalt"               -> V(TRUE, C02_NoHalt(x))
    [] name = "C04_ChargeExact"          -> V(C04_ChargeExact_app(x), C04_ChargeExact(x))
    [] name = "C04_ClientEscrowClosed"   -> V(Closure_app(x), C04_ClientEscrowClosed(x))
    [] name = "C04_RefundToPayerOnly"    -> V(C04_RefundToPayerOnly_app(x), C04_RefundToPayerOnly(x))
    [] name = "C04_OrderEscrowExact"     -> V(TRUE, C04_OrderEscrowExact(s))
    [] name = "C04_NoStuckPayment"       -> V(TRUE, C04_NoStuckPayment(s, g))
    [] name = "C04_IncomeIsBytesBlocks"  -> V(x.out.result = "ok" \/ IsTx(x), C04_IncomeIsBytesBlocks(s, g))
    [] name = "C05_FullRefund"           -> V(C05_app(x), C05_FullRefund(x))
    [] name = "C05_CleanRollback"        -> V(C05_app(x), C05_CleanRollback(x))
    [] name = "C05_TimeoutRefund"        -> V(C05_Timeout_app(x), C05_TimeoutRefund(x))
    [] name = "C05_TimeoutRollback"      -> V(C05_Timeout_app(x), C05_TimeoutRollback(x))
    [] name = "C06_OrderEscrow"          -> V(TRUE, C06_OrderEscrow(s))
    [] name = "C06_MarketEscrow"         -> V(TRUE, C06_MarketEscrow(s))
    [] name = "C06_NodeEscrow"           -> V(s.inexact = <<>>, C06_NodeEscrow(s))
    [] name = "C06_DidEscrow"            -> V(TRUE, C06_DidEscrow(s))
    [] name = "C06_EntitledNeverFails"   -> V(C06_EntitledNeverFails_app(x), C06_EntitledNeverFails(x))
    [] name = "C07_UsedWithinCap"        -> V(TRUE, C07_UsedWithinCap(s))
    [] name = "C07_ProviderEscrowClosed" -> V(Closure_app(x), C07_ProviderEscrowClosed(x))
    [] name = "C07_PledgeBackToPledger"  -> V(Closure_app(x), C07_PledgeBackToPledger(x))
    [] name = "C08_MintedEqualsCounter"  -> V(TRUE, C08_MintedEqualsCounter(s, g))
    [] name = "C08_ClaimsWithinMinted"   -> V(s.inexact = <<>>, C08_ClaimsWithinMinted(s, g))
    [] name = "C08_MintOnlyInBlocks"     -> V(IsTx(x), C08_MintOnlyInBlocks(x))
    [] name = "C08_MintBound"            -> V(C08_MintBound_app(x), C08_MintBound(x, g.cfg))
    [] name = "C08_ClaimExact"           -> V(C08_ClaimExact_app(x), C08_ClaimExact(x))
    [] name = "C09_ModelChangeAuthorised"-> V(C09_app(x), C09_ModelChangeAuthorised(x))
    [] name = "C10_CompleteByAssignee"   -> V(C10_CompleteByAssignee_app(x), C10_CompleteByAssignee(x))
    [] name = "C10_NodeSelfOnly"         -> V(C10_NodeSelfOnly_app(x), C10_NodeSelfOnly(x))
    [] name = "C10_CancelByCreator"      -> V(C05_app(x), C10_CancelByCreator(x))
    [] name = "C10_PayerConsent"         -> V(C04_ChargeExact_app(x), C10_PayerConsent(x))
    [] name = "C11_KeptWhilePaid"        -> V(TRUE, C11_KeptWhilePaid(x))
    [] name = "C11_ReleasedAtEnd"        -> V(C11_ReleasedAtEnd_app(x), C11_ReleasedAtEnd(x))
    [] name = "C11_ModelOutlivesShards"  -> V(TRUE, C11_ModelOutlivesShards(s))
    [] name = "C11_NothingOverdue"       -> V(TRUE, C11_NothingOverdue(s))
    [] name = "C12_Rescheduled"          -> V(TRUE, C12_Rescheduled(s))
    [] name = "C12_StoredOrderUntouched" -> V(Kind(x) = "Blocks", C12_StoredOrderUntouched(x))
    [] name = "C12_ResolvedByBound"      -> V(TRUE, C12_ResolvedByBound(s))
    [] name = "C13_OrderShardsExist"     -> V(TRUE, C13_OrderShardsExist(s))
    [] name = "C13_ShardListedByItsOrder"-> V(TRUE, C13_ShardListedByItsOrder(s))
    [] name = "C13_CompletedShardScheduled" -> V(TRUE, C13_CompletedShardScheduled(s))
    [] name = "C13_AliasBijection"       -> V(TRUE, C13_AliasBijection(s))
    [] name = "C14_UsedIsSum"            -> V(TRUE, C14_UsedIsSum(s))
    [] name = "C14_WorkerIsSum"          -> V(TRUE, C14_WorkerIsSum(s))
    [] name = "C14_ShardPledgedIsSum"    -> V(TRUE, C14_ShardPledgedIsSum(s))
    [] name = "C14_PoolIsSum"            -> V(TRUE, C14_PoolIsSum(s))
    [] name = "C15_Placement"            -> V(C15_app(x), C15_Placement(x))
    [] name = "C16_IdsFresh"             -> V(TRUE, C16_IdsFresh(x))
    [] name = "C16_OneInFlight"          -> V(C16_Update_app(x), C16_OneInFlight(x))
    [] name = "C16_BaseIsLatest"         -> V(C16_Update_app(x), C16_BaseIsLatest(x))
    [] name = "C16_HistoryChain"         -> V(TRUE, C16_HistoryChain(x))

\* ---------------------------------------------------------------------------
\* Conformance: the observed step is the step the specification's transition function takes.
Core(st) == [k \in (DOMAIN st) \ {"inexact", "junk"} |-> st[k]]
Diff(a, b) == {k \in (DOMAIN a) \cap (DOMAIN b) : a[k] # b[k]} \cup ((DOMAIN a) \ (DOMAIN b)) \cup ((DOMAIN b) \ (DOMAIN a))
ConfReg == 2 * Len(Names)
Conform(i) ==
    LET r == Apply(gh.cfg, Trace[i - 1].post, Trace[i].ev)
        obs == Trace[i].out.result
    IN IF r.res = "unmodelled" THEN Bump(ConfReg + 3)
       ELSE /\ Bump(ConfReg + 1)
            /\ IF r.res # obs THEN Bump(ConfReg + 2) /\ PrintT(<<"DIVERGED", i, Trace[i].seq, Trace[i].ev.kind, "result", r.res, obs>>)
               ELSE IF obs \in {"PANIC", "HANG"} THEN TRUE
               ELSE IF Core(r.st) # Core(Trace[i].post)
                    THEN Bump(ConfReg + 2) /\ PrintT(<<"DIVERGED", i, Trace[i].seq, Trace[i].ev.kind, "state", Diff(Core(r.st), Core(Trace[i].post))>>)
                    ELSE TRUE

\* registers: 2k-1 = times formula k was exercised, 2k = times it failed
CheckStep(i) ==
    \A k \in 1..Len(Names) :
        LET v == Verdict(Names[k], X(i), gh) IN
        /\ (v.app => Bump(2 * k - 1))
        /\ (~v.ok => Bump(2 * k) /\ PrintT(<<"VIOLATED", Names[k], i, Trace[i].seq, Trace[i].ev.kind>>))

TraceInit ==
    /\ l = 1
    /\ Trace[1].kind = "genesis"
    /\ gh = GhostInit(Trace[1])
    /\ \A k \in 1..(2 * Len(Names) + 3) : TLCSet(k, 0)

TraceNext ==
    /\ l < Len(Trace)
    /\ l' = l + 1
    /\ gh' = IF Trace[l + 1].kind = "genesis" THEN GhostInit(Trace[l + 1]) ELSE GhostStep(gh, X(l + 1))

TraceSpec == TraceInit /\ [][TraceNext]_vars

\* evaluated by TLC in every state of the (linear) trace behaviour
Checked == Trace[l].kind = "event" => (CheckStep(l) /\ (CheckConformance => Conform(l)))

Consumed ==
    /\ \A k \in 1..Len(Names) : PrintT(<<"COUNT", Names[k], TLCGet(2 * k - 1), TLCGet(2 * k)>>)
    /\ PrintT(<<"CONFORMANCE", TLCGet(ConfReg + 1), TLCGet(ConfReg + 2), TLCGet(ConfReg + 3)>>)
    /\ PrintT(<<"CONSUMED", TLCGet("stats").diameter, Len(Trace)>>)
    /\ TLCGet("stats").diameter = Len(Trace)
=============================================================================
