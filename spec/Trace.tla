------------------------------- MODULE Trace -------------------------------
(* Trace validation: every line of an ndjson trace recorded from the REAL code
   (harness/cmd/saoharness) is one step; TLC evaluates every property formula of
   Props.tla on the OBSERVED pre/post states of every step.  All state is logged,
   so the trace spec never branches: validation is linear in trace length.
   Several traces may be concatenated; a "genesis" line starts a new one.

   Variables are only the line index and the ghost record, so TLC's state stays
   tiny; the observed chain state is read from the (constant) Trace.  Failures are
   reported per formula and line through PrintT and counted in TLC registers; the
   post-condition prints one COUNT line per formula (exercised / failed) and fails
   if the whole trace was not consumed. *)
EXTENDS Ghost, Chain, Json

CONSTANTS TraceFile, CheckConformance

Trace == ndJsonDeserialize(TraceFile)

VARIABLES l, gh
vars == <<l, gh>>

X(i) == [pre |-> Trace[i - 1].post, ev |-> Trace[i].ev, out |-> Trace[i].out, post |-> Trace[i].post]

Bump(i) == TLCSet(i, TLCGet(i) + 1)

\* ---------------------------------------------------------------------------
\* Conformance: the observed step is the step the specification's transition function takes.
\* fields whose order carries no meaning (did tables) are compared as sets
SetLike == {"pay", "kids", "bindings", "didBal", "accLists", "accIds", "accAuths", "versions", "seeds", "faults", "faultIdx", "fishing", "unbond", "redel"}
Core(st) == [k \in (DOMAIN st) \ {"inexact", "junk"} |-> IF k \in SetLike THEN Rng(st[k]) ELSE st[k]]
Diff(a, b) == {k \in (DOMAIN a) \cap (DOMAIN b) : a[k] # b[k]} \cup ((DOMAIN a) \ (DOMAIN b)) \cup ((DOMAIN b) \ (DOMAIN a))
ConfReg == 2 * Len(Names)
Conform(i) ==
    LET r == Apply(gh.cfg, Trace[i - 1].post, Trace[i].ev)
        obs == Trace[i].out.result
    IN IF r.res = "unmodelled" \/ Trace[i].post.inexact # <<>> \/ Trace[i - 1].post.inexact # <<>> \/ r.st.inexact # <<>>
       THEN Bump(ConfReg + 3)   \* not modelled, or outside the exact-arithmetic fragment (DESIGN 3.3): skipped, and counted
       ELSE /\ Bump(ConfReg + 1)
            /\ IF r.res # obs THEN Bump(ConfReg + 2) /\ PrintT(<<"DIVERGED", i, Trace[i].seq, Trace[i].ev.kind, "result", r.res, obs>>)
               ELSE IF obs \in {"PANIC", "HANG"} THEN TRUE
               ELSE IF Core(r.st) # Core(Trace[i].post)
                    THEN Bump(ConfReg + 2) /\ PrintT(<<"DIVERGED", i, Trace[i].seq, Trace[i].ev.kind, "state", Diff(Core(r.st), Core(Trace[i].post))>>)
                    ELSE TRUE

\* registers: 2k-1 = times formula k was exercised, 2k = times it failed
CheckStep(i) ==
    \A k \in 1..Len(Names) :
        LET v == Verdict(Names[k], X(i), gh) IN
        /\ (v.app => Bump(2 * k - 1))
        /\ (~v.ok => Bump(2 * k) /\ PrintT(<<"VIOLATED", Names[k], i, Trace[i].seq, Trace[i].ev.kind>>))

TraceInit ==
    /\ l = 1
    /\ Trace[1].kind = "genesis"
    /\ gh = GhostInit(Trace[1])
    /\ \A k \in 1..(2 * Len(Names) + 3) : TLCSet(k, 0)

TraceNext ==
    /\ l < Len(Trace)
    /\ l' = l + 1
    /\ gh' = IF Trace[l + 1].kind = "genesis" THEN GhostInit(Trace[l + 1]) ELSE GhostStep(gh, X(l + 1))

TraceSpec == TraceInit /\ [][TraceNext]_vars

\* evaluated by TLC in every state of the (linear) trace behaviour
Checked == Trace[l].kind = "event" => (CheckStep(l) /\ (CheckConformance => Conform(l)))

Consumed ==
    /\ \A k \in 1..Len(Names) : PrintT(<<"COUNT", Names[k], TLCGet(2 * k - 1), TLCGet(2 * k)>>)
    /\ PrintT(<<"CONFORMANCE", TLCGet(ConfReg + 1), TLCGet(ConfReg + 2), TLCGet(ConfReg + 3)>>)
    /\ PrintT(<<"CONSUMED", TLCGet("stats").diameter, Len(Trace)>>)
    /\ TLCGet("stats").diameter = Len(Trace)
=============================================================================
