SPECIFICATION TraceSpec
CONSTANTS
  TraceFile = "trace.ndjson"
  CheckConformance = FALSE
  MinDuration = 3600
  MaxTries = 10
INVARIANT Checked
POSTCONDITION Consumed
CHECK_DEADLOCK FALSE
