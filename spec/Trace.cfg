SPECIFICATION TraceSpec
CONSTANT TraceFile = "trace.ndjson"
INVARIANT Checked
POSTCONDITION Consumed
CHECK_DEADLOCK FALSE
