package chain

import (
	"crypto/sha256"
	"encoding/binary"
	"encoding/hex"
	"encoding/json"
	"fmt"
	cryptotypes "github.com/cosmos/cosmos-sdk/crypto/types"
	"math/rand"
	"os"
	"strings"
	"time"

	"github.com/SaoNetwork/sao/app"
	"github.com/cosmos/cosmos-sdk/simapp"
	"github.com/cosmos/cosmos-sdk/simapp/helpers"
	sdk "github.com/cosmos/cosmos-sdk/types"
	abci "github.com/tendermint/tendermint/abci/types"
	"github.com/tendermint/tendermint/libs/log"
	tmproto "github.com/tendermint/tendermint/proto/tendermint/types"
	dbm "github.com/tendermint/tm-db"
)

// ABCI-level replica: the real app behind the real ABCI boundary (CheckTx, BeginBlock,
// DeliverTx with signed transactions, EndBlock, Commit) over an on-disk database, so that a
// replica can be stopped after any committed block and re-opened by a NEW process.

type Replica struct {
	*Chain
	DB      dbm.DB
	Dir     string
	LastApp []byte
	Initial int64 // initial height of a chain started from an exported genesis (0 = 1)
}

// OpenReplica opens (or creates) the replica stored under dir. A fresh directory runs InitChain.
func OpenReplica(cfg Config, dir string, genesisOverride []byte, initialHeight int64) (*Replica, error) {
	c, err := newWorld(cfg)
	if err != nil {
		return nil, err
	}
	db, err := dbm.NewGoLevelDB("application", dir)
	if err != nil {
		return nil, err
	}
	home, _ := os.MkdirTemp("", "saoharness-home")
	defer os.RemoveAll(home)
	a := app.New(log.NewNopLogger(), db, nil, true, map[int64]bool{}, home, 0, c.encCfg, simapp.EmptyAppOptions{}).(*app.App)
	c.App = a
	r := &Replica{Chain: c, DB: db, Dir: dir}
	if a.LastBlockHeight() == 0 {
		stateBytes := genesisOverride
		if stateBytes == nil {
			stateBytes, err = c.genesisState()
			if err != nil {
				return nil, err
			}
		}
		res := a.InitChain(abci.RequestInitChain{ChainId: ChainID, Validators: []abci.ValidatorUpdate{}, ConsensusParams: consensusParams(), AppStateBytes: stateBytes, Time: time.Unix(1700000000, 0).UTC(), InitialHeight: initialHeight})
		r.LastApp = res.AppHash
		c.H = 0
		r.Initial = initialHeight
	} else {
		c.H = a.LastBlockHeight()
		r.LastApp = a.LastCommitID().Hash
	}
	return r, nil
}

func (r *Replica) Close() { r.DB.Close() }

type TxOut struct {
	Code uint32 `json:"code"`
	Hash string `json:"hash"` // sha256 over the whole ResponseDeliverTx (code, data, log, gas, events)
	Log  string `json:"log"`
}

type BlockOut struct {
	Height  int64   `json:"height"`
	AppHash string  `json:"appHash"`
	Txs     []TxOut `json:"txs"`
	End     string  `json:"end"`
}

func hashOf(v interface{}) string {
	b, _ := json.Marshal(v)
	h := sha256.Sum256(b)
	return hex.EncodeToString(h[:8])
}

// signedTx builds a signed transaction for the abstract event (signer = ev.Creator).
func (r *Replica) signedTx(ctx sdk.Context, e *Event) ([]byte, error) {
	e.Normalize()
	r.Ctx = ctx // the concretiser may look at the current state (sid documents)
	msg := r.Msg(e)
	if msg == nil {
		return nil, fmt.Errorf("no message for %s", e.Kind)
	}
	msgs := []sdk.Msg{msg}
	signers := []string{e.Creator}
	for i := range e.Also {
		a := &e.Also[i]
		a.Normalize()
		m := r.Msg(a)
		if m == nil {
			return nil, fmt.Errorf("no message for %s", a.Kind)
		}
		msgs = append(msgs, m)
		seen := false
		for _, s := range signers {
			seen = seen || s == a.Creator
		}
		if !seen {
			signers = append(signers, a.Creator)
		}
	}
	var nums, seqs []uint64
	var privs []cryptotypes.PrivKey
	for _, s := range signers {
		acc := r.Acc(s)
		if acc == nil {
			return nil, fmt.Errorf("unknown signer %s", s)
		}
		var num, seq uint64
		if a := r.App.AccountKeeper.GetAccount(ctx, acc.Addr); a != nil {
			num, seq = a.GetAccountNumber(), a.GetSequence()
		}
		nums, seqs, privs = append(nums, num), append(seqs, seq), append(privs, acc.Priv)
	}
	// fixed memo source: identical bytes on every replica
	tx, err := helpers.GenSignedMockTx(rand.New(rand.NewSource(int64(seqs[0])+7)), r.encCfg.TxConfig, msgs, sdk.NewCoins(), 50_000_000, ChainID, nums, seqs, privs...)
	if err != nil {
		return nil, err
	}
	return r.encCfg.TxConfig.TxEncoder()(tx)
}

// Block executes one block containing the given events through the real ABCI calls.
func (r *Replica) Block(events []Event) (BlockOut, error) {
	h := r.App.LastBlockHeight() + 1
	if r.App.LastBlockHeight() == 0 && r.Initial > 1 {
		h = r.Initial
	}
	// The header's AppHash is an INPUT of the block (x/node draws its selection seed from it). It is made a function of
	// the height alone, so that a chain re-started from an exported genesis (whose real application hash necessarily
	// differs) is fed the same seeds as the chain it was exported from; the REAL application hash is what Commit returns
	// and what replicas are compared on.
	seedHash := sha256.Sum256([]byte(fmt.Sprintf("header-app-hash/%d", h)))
	hdr := tmproto.Header{ChainID: ChainID, Height: h, AppHash: seedHash[:], Time: time.Unix(1700000000+h*5, 0).UTC()}
	out := BlockOut{Height: h, Txs: []TxOut{}}
	var err error
	res, pm := r.guarded(func() {
		r.App.BeginBlock(abci.RequestBeginBlock{Header: hdr})
		for i := range events {
			ctx := r.App.BaseApp.NewContext(false, hdr)
			var bz []byte
			bz, err = r.signedTx(ctx, &events[i])
			if err != nil {
				return
			}
			rd := r.App.DeliverTx(abci.RequestDeliverTx{Tx: bz})
			// what replicas have to agree on: code, data, gas and events. The free-text log and info are not part of the
			// consensus results (a recovered panic's log carries a stack trace with goroutine numbers)
			det := abci.ResponseDeliverTx{Code: rd.Code, Data: rd.Data, GasWanted: rd.GasWanted, GasUsed: rd.GasUsed, Events: rd.Events, Codespace: rd.Codespace}
			out.Txs = append(out.Txs, TxOut{Code: rd.Code, Hash: hashOf(det), Log: trunc(rd.Log, 160)})
		}
		re := r.App.EndBlock(abci.RequestEndBlock{Height: h})
		out.End = hashOf(re)
		rc := r.App.Commit()
		r.LastApp = rc.Data
		out.AppHash = hex.EncodeToString(rc.Data)
	})
	if err != nil {
		return out, err
	}
	if res != "ok" {
		return out, fmt.Errorf("%s in block %d: %s", res, h, pm)
	}
	r.H = h
	return out, nil
}

func trunc(s string, n int) string {
	if len(s) > n {
		return s[:n]
	}
	return s
}

// CheckTx / Simulate: non-consensus executions of the same transaction bytes.
func (r *Replica) CheckTx(e Event) uint32 {
	ctx := r.App.BaseApp.NewContext(true, tmproto.Header{ChainID: ChainID, Height: r.App.LastBlockHeight()})
	bz, err := r.signedTx(ctx, &e)
	if err != nil {
		return 999
	}
	return r.App.CheckTx(abci.RequestCheckTx{Tx: bz, Type: abci.CheckTxType_New}).Code
}

func (r *Replica) Simulate(e Event) string {
	ctx := r.App.BaseApp.NewContext(true, tmproto.Header{ChainID: ChainID, Height: r.App.LastBlockHeight()})
	bz, err := r.signedTx(ctx, &e)
	if err != nil {
		return "build:" + err.Error()
	}
	_, _, err = r.App.Simulate(bz)
	if err != nil {
		return "err"
	}
	return "ok"
}

// ProjectCommitted projects the committed state (a query context at the last height).
func (r *Replica) ProjectCommitted() State {
	h := r.App.LastBlockHeight()
	// before the first commit the genesis state only exists in the deliver state
	r.Ctx = r.App.BaseApp.NewContext(h > 0, tmproto.Header{ChainID: ChainID, Height: h})
	r.H = h
	st := r.Project()
	st.Seed = 0
	return st
}

// SetNodeRound writes the super-node round-robin cursor (n < 0: leave it absent) into the state the next block starts from.
func (r *Replica) SetNodeRound(n int64) {
	if n < 0 {
		return
	}
	h := r.App.LastBlockHeight()
	ctx := r.App.BaseApp.NewContext(false, tmproto.Header{ChainID: ChainID, Height: h})
	r.App.NodeKeeper.SetNodeRound(ctx, uint8(n))
}

// DumpStores lists the raw key/value contents of the six storage modules' stores at the state the next block starts from:
// "module:Prefix" -> {hex(key) -> hash(value)}, Prefix being the first path segment of the key ("Node", "NodeRound", ...).
// Nothing is interpreted: this is what an export/import round trip has to reproduce, whether or not the projection knows
// the field.
func (r *Replica) DumpStores() map[string]map[string]string {
	h := r.App.LastBlockHeight()
	ctx := r.App.BaseApp.NewContext(h > 0, tmproto.Header{ChainID: ChainID, Height: h})
	out := map[string]map[string]string{}
	for _, mod := range []string{"sao", "node", "order", "model", "market", "did"} {
		key := r.App.GetKey(mod)
		if key == nil {
			continue
		}
		it := ctx.KVStore(key).Iterator(nil, nil)
		for ; it.Valid(); it.Next() {
			k := it.Key()
			seg := string(k)
			if i := strings.IndexByte(seg, '/'); i > 0 {
				seg = seg[:i]
			} else {
				seg = "?"
			}
			name := mod + ":" + seg
			if out[name] == nil {
				out[name] = map[string]string{}
			}
			v := it.Value()
			if string(k) == "Order/count/" && len(v) == 8 && binary.BigEndian.Uint64(v) == 0 {
				// the order counter reads as 1 when it is absent or 0 (GetOrderCount): the same state
				v = []byte{0, 0, 0, 0, 0, 0, 0, 1}
			}
			hv := sha256.Sum256(v)
			out[name][hex.EncodeToString(k)] = hex.EncodeToString(hv[:6])
		}
		it.Close()
	}
	return out
}

// Export returns the exported application state (genesis JSON of all modules).
func (r *Replica) Export() ([]byte, error) {
	ex, err := r.App.ExportAppStateAndValidators(false, nil)
	if err != nil {
		return nil, err
	}
	return ex.AppState, nil
}
