package chain

import (
	"bufio"
	"encoding/json"
	"math/big"
	"math/rand"
	"os"
	"sort"
	"time"

	nodemodule "github.com/SaoNetwork/sao/x/node"
	nodetypes "github.com/SaoNetwork/sao/x/node/types"
	sdk "github.com/cosmos/cosmos-sdk/types"
)

// Function-level conformance for provider selection: the REAL NodeKeeper.RandomSP /
// RandomIndex are called on crafted node populations; each call is one ndjson line that
// TLC checks against Chain!RandomSP / Chain!RandomIndex and the C15 formulas (SelTrace.tla).

type SelOut struct {
	Result string   `json:"result"` // ok | HANG | PANIC
	Sps    []string `json:"sps"`
	Round  int64    `json:"round"`
	Idx    []int64  `json:"idx"`
	Age    int64    `json:"age"`
}

type SelCase struct {
	Kind    string    `json:"kind"` // sel | ri
	Nodes   []PNode   `json:"nodes"`
	Pledges []PPledge `json:"pledges"`
	Round   int64     `json:"round"`
	Seed    int64     `json:"seed"`
	Count   int64     `json:"count"`
	Ignore  []string  `json:"ignore"`
	Size    int64     `json:"size"`
	Total   int64     `json:"total"`
	Out     SelOut    `json:"out"`
}

func (c *Chain) runSel(sc *SelCase) {
	ctx, _ := c.Ctx.CacheContext()
	ctx = ctx.WithGasMeter(sdk.NewInfiniteGasMeter())
	hdr := ctx.BlockHeader()
	hdr.AppHash = seedBytes(sc.Seed)
	ctx = ctx.WithBlockHeader(hdr)
	k := c.App.NodeKeeper
	for _, n := range sc.Nodes {
		k.SetNode(ctx, nodetypes.Node{Creator: c.Concrete(n.A), Status: uint32(n.Status), Reputation: float32(n.Rep), Role: uint32(n.Role), LastAliveHeight: n.Alive})
	}
	for _, p := range sc.Pledges {
		k.SetPledge(ctx, nodetypes.Pledge{Creator: c.Concrete(p.A), TotalStorage: p.Cap, UsedStorage: p.Used,
			TotalStoragePledged: sdk.NewInt64Coin(Denom, 0), TotalShardPledged: sdk.NewInt64Coin(Denom, 0),
			Reward: sdk.NewInt64DecCoin(Denom, 0), RewardDebt: sdk.NewInt64DecCoin(Denom, 0)})
	}
	if sc.Round >= 0 {
		k.SetNodeRound(ctx, uint8(sc.Round))
	}
	var ign []string
	for _, i := range sc.Ignore {
		ign = append(ign, c.Concrete(i))
	}
	var res []nodetypes.Node
	old := c.Timeout
	c.Timeout = 2 * time.Second
	r, _ := c.guarded(func() { res = k.RandomSP(ctx, int(sc.Count), ign, sc.Size) })
	c.Timeout = old
	sc.Out = SelOut{Result: r, Sps: []string{}, Idx: []int64{}, Round: -1}
	if r != "ok" {
		return
	}
	for _, n := range res {
		sc.Out.Sps = append(sc.Out.Sps, c.Name(n.Creator))
	}
	if rr, ok := k.GetNodeRound(ctx); ok {
		sc.Out.Round = int64(rr)
	}
}

func (c *Chain) runRI(sc *SelCase) {
	var res []int
	old := c.Timeout
	c.Timeout = 2 * time.Second
	r, _ := c.guarded(func() {
		res = c.App.NodeKeeper.RandomIndex(new(big.Int).SetInt64(sc.Seed), int(sc.Total), int(sc.Count))
	})
	c.Timeout = old
	sc.Out = SelOut{Result: r, Sps: []string{}, Idx: []int64{}, Round: -1}
	for _, i := range res {
		sc.Out.Idx = append(sc.Out.Idx, int64(i))
	}
}

// runAge: the reward age (halvings) when num/den of TOTAL_REWARD has been minted.
func (c *Chain) runAge(sc *SelCase) {
	total, _ := sdk.ParseCoinNormalized(nodemodule.TOTAL_REWARD)
	minted := total.Amount.MulRaw(sc.Count).QuoRaw(sc.Total)
	pool := nodetypes.Pool{TotalReward: sdk.NewCoin(total.Denom, minted)}
	var age uint
	r, _ := c.guarded(func() { age = nodemodule.GetRewardAge(pool) })
	sc.Out = SelOut{Result: r, Sps: []string{}, Idx: []int64{}, Round: -1, Age: int64(age)}
	if age > 1000 {
		sc.Out.Age = 1000
	}
}

// SelectionCases writes n random selection cases (plus a systematic sweep of RandomIndex) to path.
// Returns the number of cases and how many did not return (HANG).
func (c *Chain) SelectionCases(path string, n int, seed int64) (int, int, error) {
	f, err := os.Create(path)
	if err != nil {
		return 0, 0, err
	}
	defer f.Close()
	w := bufio.NewWriter(f)
	defer w.Flush()
	r := rand.New(rand.NewSource(seed))
	cases, hangs := 0, 0
	emit := func(sc *SelCase) {
		b, _ := json.Marshal(sc)
		w.Write(b)
		w.WriteByte('\n')
		cases++
		if sc.Out.Result == "HANG" {
			hangs++
		}
	}
	// RandomIndex sweep: all (total, count) up to 6 with empty, one-digit, two-digit and longer seeds
	seeds := []int64{0, 1, 2, 5, 9, 10, 11, 37, 99, 100, 123, 4096, 99999, 123456789, 1000003}
	for total := int64(1); total <= 6; total++ {
		for count := int64(1); count <= 6; count++ {
			for _, s := range seeds {
				if hangs > 3 {
					break
				}
				sc := &SelCase{Kind: "ri", Seed: s, Total: total, Count: count, Nodes: []PNode{}, Pledges: []PPledge{}, Ignore: []string{}}
				c.runRI(sc)
				emit(sc)
			}
		}
	}
	// reward age at fractions num/den of the total emission (kind "age": count = num, total = den)
	for _, f := range [][2]int64{{0, 1}, {1, 4}, {1, 2}, {5, 8}, {3, 4}, {7, 8}, {15, 16}, {99, 100}, {1, 1}, {5, 4}, {2, 1}} {
		sc := &SelCase{Kind: "age", Count: f[0], Total: f[1], Nodes: []PNode{}, Pledges: []PPledge{}, Ignore: []string{}}
		c.runAge(sc)
		emit(sc)
	}
	accs := []string{}
	for _, a := range c.Accs {
		accs = append(accs, a.Name)
	}
	statuses := []int64{0, 13, 13, 15, 15, 5, 9, 12, 29}
	reps := []int64{7999, 8000, 10000, 10000, 12000}
	caps := []int64{0, 1000000, 2000000, 2000000}
	useds := []int64{0, 0, 500000, 1000000}
	sizes := []int64{1, 600000, 1500000}
	rounds := []int64{-1, 0, 0, 1, 2, 5}
	for i := 0; i < n && hangs <= 3; i++ {
		k := r.Intn(7)
		perm := r.Perm(len(accs))[:k]
		sort.Ints(perm)
		sc := &SelCase{Kind: "sel", Nodes: []PNode{}, Pledges: []PPledge{}, Ignore: []string{}}
		for _, pi := range perm {
			a := accs[pi]
			role := int64(0)
			if r.Intn(3) == 0 {
				role = 1
			}
			sc.Nodes = append(sc.Nodes, PNode{A: a, Status: statuses[r.Intn(len(statuses))], Rep: reps[r.Intn(len(reps))], Role: role, Val: "", Tx: []string{}, Alive: int64(1 + r.Intn(3))})
			if r.Intn(8) != 0 {
				cp := caps[r.Intn(len(caps))]
				us := useds[r.Intn(len(useds))]
				if us > cp {
					us = cp
				}
				sc.Pledges = append(sc.Pledges, PPledge{A: a, Cap: cp, Used: us})
			}
			if r.Intn(5) == 0 {
				sc.Ignore = append(sc.Ignore, a)
			}
		}
		if r.Intn(6) == 0 {
			sc.Ignore = append(sc.Ignore, accs[r.Intn(len(accs))])
		}
		sc.Round = rounds[r.Intn(len(rounds))]
		sc.Seed = seeds[r.Intn(len(seeds))]
		if r.Intn(3) == 0 {
			sc.Seed = r.Int63n(1000003)
		}
		sc.Count = int64(1 + r.Intn(5))
		sc.Size = sizes[r.Intn(len(sizes))]
		c.runSel(sc)
		emit(sc)
	}
	return cases, hangs, nil
}
