//go:build !verif

package chain

func volatileShares() (string, string) { return "", "" }
