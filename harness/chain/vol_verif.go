//go:build verif

package chain

import nodekeeper "github.com/SaoNetwork/sao/x/node/keeper"

// volatile process state of the code under test (needs the repository's `verif` hooks)
func volatileShares() (string, string) { return nodekeeper.VerifSharesBeforeModified(), "" }
