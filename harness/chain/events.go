package chain

import (
	"crypto/ecdsa"
	"encoding/base64"
	"encoding/hex"
	"encoding/json"
	"fmt"
	"strings"

	"github.com/cosmos/cosmos-sdk/crypto/keys/secp256k1"
	"github.com/dvsekhvalnov/jose2go/base64url"
	ethcrypto "github.com/ethereum/go-ethereum/crypto"
	"github.com/multiformats/go-multibase"

	didkeeper "github.com/SaoNetwork/sao/x/did/keeper"

	didtypes "github.com/SaoNetwork/sao/x/did/types"
	nodetypes "github.com/SaoNetwork/sao/x/node/types"
	saotypes "github.com/SaoNetwork/sao/x/sao/types"
	sdk "github.com/cosmos/cosmos-sdk/types"
	sdkerrors "github.com/cosmos/cosmos-sdk/types/errors"
	banktypes "github.com/cosmos/cosmos-sdk/x/bank/types"
	stakingtypes "github.com/cosmos/cosmos-sdk/x/staking/types"
)

func sdkerrorsABCIInfo(err error) (string, uint32, string) { return sdkerrors.ABCIInfo(err, false) }

const ValidCid = "bafkreib3yc2mrsnfe4z62xkc6z4vfvssq7qvnkzm5n2uzsvkxfn5d5yq6e"

// FaultEv is one entry of a Report/RecoverFaults message.
type FaultEv struct {
	Data     string `json:"data"`
	Order    int64  `json:"order"`
	Shard    int64  `json:"shard"`
	Commit   string `json:"commit"`
	Provider string `json:"provider"`
}

// Event is the abstract event alphabet shared with the TLA+ specification. Every
// field is always present in the JSON so the trace spec can read it unguarded.
type Event struct {
	Kind     string    `json:"kind"`
	Creator  string    `json:"creator"`  // tx signer (account name)
	Provider string    `json:"provider"` // msg.Provider (account name)
	Owner    string    `json:"owner"`    // proposal.Owner (DID name)
	Signer   string    `json:"signer"`   // DID whose key signs the JWS
	SigMode  string    `json:"sigmode"`  // ok | stale | none | kidspoof
	Gw       string    `json:"gw"`       // proposal.Provider (Store)
	Data     string    `json:"data"`
	Commit   string    `json:"commit"` // symbolic, segments joined by "|"
	Cseg     []string  `json:"cseg"`   // derived: Commit split on "|"
	Op       int64     `json:"op"`
	Dur      int64     `json:"dur"`
	Replica  int64     `json:"replica"`
	Timeout  int64     `json:"timeout"`
	Size     int64     `json:"size"`
	PayDid   string    `json:"paydid"`
	Alias    string    `json:"alias"`
	Ro       []string  `json:"ro"`
	Rw       []string  `json:"rw"`
	Order    int64     `json:"order"`
	N        int64     `json:"n"`
	Status   int64     `json:"status"`
	Tx       []string  `json:"tx"`
	Val      string    `json:"val"`
	Val2     string    `json:"val2"`
	Datas    []string  `json:"datas"`
	Did      string    `json:"did"`
	Acc      string    `json:"acc"`
	Amount   int64     `json:"amount"`
	Faults   []FaultEv `json:"faults"`
	// Also: further messages packed into the SAME transaction after this one (replica scripts only): a transaction whose
	// first message succeeds and whose last one fails is rolled back as a whole
	Also []Event `json:"also,omitempty"`
}

func (e *Event) Normalize() {
	if e.Ro == nil {
		e.Ro = []string{}
	}
	if e.Rw == nil {
		e.Rw = []string{}
	}
	if e.Tx == nil {
		e.Tx = []string{}
	}
	if e.Datas == nil {
		e.Datas = []string{}
	}
	if e.Faults == nil {
		e.Faults = []FaultEv{}
	}
	if e.SigMode == "" {
		e.SigMode = "ok"
	}
	if e.SigMode == "kidspoof" && e.Signer == e.Owner {
		e.SigMode = "ok" // the owner's kid on the owner's own signature is simply a valid signature
	}
	if e.SigMode == "kidspoof" && isSidDoc(e.Signer) && sidOfDoc(e.Signer) == e.Owner {
		e.SigMode = "ok" // a document of the owner's own DID under the owner's DID: a valid header
	}
	e.Cseg = strings.Split(e.Commit, "|")
}

// ShardResp is a shard assignment returned by Store/Ready.
type ShardResp struct {
	Id int64  `json:"id"`
	Sp string `json:"sp"`
}

// Outcome is what one event did on the real code.
type Outcome struct {
	Result       string      `json:"result"` // ok | err | PANIC | HANG
	Panic        bool        `json:"panic"`  // err caused by a panic recovered at the tx boundary
	Err          string      `json:"err"`
	Space        string      `json:"space"`
	Code         int64       `json:"code"`
	OrderId      int64       `json:"orderId"`
	Shards       []ShardResp `json:"shards"`
	Items        []string    `json:"items"`        // per-item verdicts of Renew/Migrate: ok|fail
	Claimed      int64       `json:"claimed"`      // ClaimReward response
	Phase        string      `json:"phase"`        // where a block event failed
	Blocks       int64       `json:"blocks"`       // blocks actually advanced
	Insufficient bool        `json:"insufficient"` // failure text mentions insufficient funds
}

func (c *Chain) dataConcrete(sym string) string {
	if v, ok := c.concr[sym]; ok {
		return v
	}
	// D<k> and c<k> are bound lazily to 36-char ids
	if len(sym) >= 2 && (sym[0] == 'D' || sym[0] == 'c') && isDigits(sym[1:]) {
		pre := "00000000"
		if sym[0] == 'c' {
			pre = "cccccccc"
		}
		v := fmt.Sprintf("%s-0000-0000-0000-%012s", pre, sym[1:])
		c.bind(sym, v)
		return v
	}
	return sym
}

func isDigits(s string) bool {
	if s == "" {
		return false
	}
	for _, r := range s {
		if r < '0' || r > '9' {
			return false
		}
	}
	return true
}

func (c *Chain) commitConcrete(sym string) string {
	parts := strings.Split(sym, "|")
	for i, p := range parts {
		if strings.HasSuffix(p, "~") {
			full := c.dataConcrete(strings.TrimSuffix(p, "~"))
			if len(full) > 8 {
				full = full[:8]
			}
			parts[i] = full
		} else {
			parts[i] = c.dataConcrete(p)
		}
	}
	return strings.Join(parts, "|")
}

func (c *Chain) didsConcrete(xs []string) []string {
	if len(xs) == 0 {
		return nil
	}
	out := make([]string, len(xs))
	for i, x := range xs {
		out[i] = c.Concrete(x)
	}
	return out
}

type marshaler interface{ Marshal() ([]byte, error) }

// sign produces the JWS for a proposal according to the event's signer/sigmode.
func (c *Chain) sign(e *Event, p marshaler) saotypes.JwsSignature {
	if isSidDoc(e.Signer) && e.SigMode != "none" {
		payload, _ := p.Marshal()
		return c.signSid(e, payload)
	}
	d := c.DidByName(e.Signer)
	if d == nil || e.SigMode == "none" {
		return saotypes.JwsSignature{}
	}
	payload, _ := p.Marshal()
	if e.SigMode == "stale" {
		payload = append([]byte("other-payload:"), payload...)
	}
	jws, err := d.Provider.CreateJWS(payload)
	if err != nil {
		return saotypes.JwsSignature{}
	}
	sig := saotypes.JwsSignature{Protected: jws.Signatures[0].Protected, Signature: jws.Signatures[0].Signature}
	if e.SigMode == "kidspoof" {
		// header claims the owner's kid, signature is by the signer's key
		if o := c.DidByName(e.Owner); o != nil {
			oj, _ := o.Provider.CreateJWS(payload)
			sig.Protected = oj.Signatures[0].Protected
		}
	}
	return sig
}

func (c *Chain) addr(name string) string { return c.Concrete(name) }

// Msg concretises an abstract event into the real sdk.Msg (nil for block events).
func (c *Chain) Msg(e *Event) sdk.Msg {
	switch e.Kind {
	case "Create":
		return &nodetypes.MsgCreate{Creator: c.addr(e.Creator)}
	case "Reset":
		var tx []string
		for _, t := range e.Tx {
			tx = append(tx, c.addr(t))
		}
		return &nodetypes.MsgReset{Creator: c.addr(e.Creator), Status: uint32(e.Status), TxAddresses: tx, Validator: c.Concrete(e.Val)}
	case "AddVstorage":
		return &nodetypes.MsgAddVstorage{Creator: c.addr(e.Creator), Size_: uint64(e.Size)}
	case "RemoveVstorage":
		return &nodetypes.MsgRemoveVstorage{Creator: c.addr(e.Creator), Size_: uint64(e.Size)}
	case "Claim":
		return &nodetypes.MsgClaimReward{Creator: c.addr(e.Creator)}
	case "PayAddr":
		return &didtypes.MsgUpdatePaymentAddress{Creator: c.addr(e.Creator), AccountId: c.accountIdOf(e.Acc), Did: c.Concrete(e.Did)}
	case "Store":
		p := saotypes.Proposal{Owner: c.Concrete(e.Owner), Provider: c.addr(e.Gw), GroupId: "g", Duration: uint64(e.Dur), Replica: int32(e.Replica), Timeout: int32(e.Timeout), Alias: e.Alias, DataId: c.dataConcrete(e.Data), CommitId: c.commitConcrete(e.Commit), Cid: ValidCid, Size_: uint64(e.Size), Operation: uint32(e.Op), ReadonlyDids: c.didsConcrete(e.Ro), ReadwriteDids: c.didsConcrete(e.Rw), PaymentDid: c.Concrete(e.PayDid)}
		return &saotypes.MsgStore{Creator: c.addr(e.Creator), Provider: c.addr(e.Provider), Proposal: p, JwsSignature: c.sign(e, &p)}
	case "Ready":
		return &saotypes.MsgReady{Creator: c.addr(e.Creator), Provider: c.addr(e.Provider), OrderId: uint64(e.Order)}
	case "Complete":
		return &saotypes.MsgComplete{Creator: c.addr(e.Creator), Provider: c.addr(e.Provider), OrderId: uint64(e.Order), Cid: ValidCid, Size_: uint64(e.Size)}
	case "Cancel":
		return &saotypes.MsgCancel{Creator: c.addr(e.Creator), Provider: c.addr(e.Provider), OrderId: uint64(e.Order)}
	case "Terminate":
		p := saotypes.TerminateProposal{Owner: c.Concrete(e.Owner), DataId: c.dataConcrete(e.Data)}
		return &saotypes.MsgTerminate{Creator: c.addr(e.Creator), Provider: c.addr(e.Provider), Proposal: p, JwsSignature: c.sign(e, &p)}
	case "Renew":
		var ds []string
		for _, d := range e.Datas {
			ds = append(ds, c.dataConcrete(d))
		}
		p := saotypes.RenewProposal{Owner: c.Concrete(e.Owner), Duration: uint64(e.Dur), Timeout: int32(e.Timeout), Data: ds}
		return &saotypes.MsgRenew{Creator: c.addr(e.Creator), Provider: c.addr(e.Provider), Proposal: p, JwsSignature: c.sign(e, &p)}
	case "Migrate":
		var ds []string
		for _, d := range e.Datas {
			ds = append(ds, c.dataConcrete(d))
		}
		return &saotypes.MsgMigrate{Creator: c.addr(e.Creator), Provider: c.addr(e.Provider), Data: ds}
	case "Permission":
		p := saotypes.PermissionProposal{Owner: c.Concrete(e.Owner), DataId: c.dataConcrete(e.Data), ReadonlyDids: c.didsConcrete(e.Ro), ReadwriteDids: c.didsConcrete(e.Rw)}
		return &saotypes.MsgUpdataPermission{Creator: c.addr(e.Creator), Provider: c.addr(e.Provider), Proposal: p, JwsSignature: c.sign(e, &p)}
	case "ReportFaults", "RecoverFaults":
		var fs []*saotypes.Fault
		for _, f := range e.Faults {
			fs = append(fs, &saotypes.Fault{DataId: c.dataConcrete(f.Data), OrderId: uint64(f.Order), ShardId: uint64(f.Shard), CommitId: c.commitConcrete(f.Commit), Provider: c.addr(f.Provider)})
		}
		if e.Kind == "ReportFaults" {
			return &saotypes.MsgReportFaults{Creator: c.addr(e.Creator), Provider: c.addr(e.Provider), Faults: fs}
		}
		return &saotypes.MsgRecoverFaults{Creator: c.addr(e.Creator), Provider: c.addr(e.Provider), Faults: fs}
	case "Binding":
		return c.bindingMsg(e)
	case "DidUpdate":
		return c.didUpdateMsg(e)
	case "PayAddrSid":
		return &didtypes.MsgUpdatePaymentAddress{Creator: c.addr(e.Creator), AccountId: c.accountIdOf(e.Acc), Did: c.Concrete(e.Did)}
	case "Send":
		return &banktypes.MsgSend{FromAddress: c.addr(e.Creator), ToAddress: c.addr(e.Acc), Amount: sdk.NewCoins(sdk.NewInt64Coin(Denom, e.Amount))}
	case "Delegate":
		return &stakingtypes.MsgDelegate{DelegatorAddress: c.addr(e.Creator), ValidatorAddress: c.Concrete(e.Val), Amount: sdk.NewInt64Coin(Denom, e.Amount)}
	case "Undelegate":
		return &stakingtypes.MsgUndelegate{DelegatorAddress: c.addr(e.Creator), ValidatorAddress: c.Concrete(e.Val), Amount: sdk.NewInt64Coin(Denom, e.Amount)}
	case "Redelegate":
		return &stakingtypes.MsgBeginRedelegate{DelegatorAddress: c.addr(e.Creator), ValidatorSrcAddress: c.Concrete(e.Val), ValidatorDstAddress: c.Concrete(e.Val2), Amount: sdk.NewInt64Coin(Denom, e.Amount)}
	}
	return nil
}

// Exec runs one abstract event on the real code.
func (c *Chain) Exec(e *Event) Outcome {
	e.Normalize()
	out := Outcome{Shards: []ShardResp{}, Items: []string{}}
	if e.Kind == "Blocks" {
		out.Result = "ok"
		for i := int64(0); i < e.N; i++ {
			r, phase, pm := c.EndAndBegin(e.Status == 1)
			if r != "ok" {
				out.Result, out.Phase, out.Err = r, phase, pm
				out.Insufficient = strings.Contains(pm, "insufficient funds")
				return out
			}
			out.Blocks++
		}
		return out
	}
	msg := c.Msg(e)
	if msg == nil {
		out.Result, out.Err = "err", "unknown event kind "+e.Kind
		return out
	}
	tr := c.Deliver(msg)
	out.Result, out.Panic, out.Err, out.Space, out.Code = tr.Result, tr.Panic, tr.Err, tr.Space, int64(tr.Code)
	out.Insufficient = strings.Contains(out.Err, "insufficient funds")
	if tr.Result != "ok" {
		return out
	}
	res, _ := tr.Resp.(*sdk.Result)
	if res == nil {
		return out
	}
	data := res.Data
	// the handler result wraps the proto response bytes directly
	switch e.Kind {
	case "Store":
		var r saotypes.MsgStoreResponse
		if r.Unmarshal(data) == nil {
			out.OrderId = int64(r.OrderId)
			for _, s := range r.Shards {
				out.Shards = append(out.Shards, ShardResp{Id: int64(s.ShardId), Sp: c.Name(s.Sp)})
			}
		}
	case "Ready":
		var r saotypes.MsgReadyResponse
		if r.Unmarshal(data) == nil {
			out.OrderId = int64(r.OrderId)
			for _, s := range r.Shards {
				out.Shards = append(out.Shards, ShardResp{Id: int64(s.ShardId), Sp: c.Name(s.Sp)})
			}
		}
	case "Renew":
		var r saotypes.MsgRenewResponse
		if r.Unmarshal(data) == nil {
			for _, kv := range r.Result {
				if strings.HasPrefix(kv.V, "SUCCESS") {
					out.Items = append(out.Items, "ok")
				} else {
					out.Items = append(out.Items, "fail")
				}
			}
		}
	case "Migrate":
		var r saotypes.MsgMigrateResponse
		if r.Unmarshal(data) == nil {
			for _, kv := range r.Result {
				if strings.HasPrefix(kv.V, "SUCCESS") {
					out.Items = append(out.Items, "ok")
				} else {
					out.Items = append(out.Items, "fail")
				}
			}
		}
	case "Claim":
		var r nodetypes.MsgClaimRewardResponse
		if r.Unmarshal(data) == nil {
			out.Claimed = int64(r.ClaimedReward)
		}
	}
	return out
}

// ---------------------------------------------------------------------------
// sid DIDs. A symbolic sid name ("s1") stands for did:sid:<docId> where docId is the hash of
// the key set and the creation timestamp; the mapping is created at first use.

type sidInfo struct {
	Name  string
	Keys  []*didtypes.PubKey
	T0    uint64
	DocId string
	Ver   int
}

func (c *Chain) sid(name string, ts uint64) *sidInfo {
	if c.sids == nil {
		c.sids = map[string]*sidInfo{}
	}
	if s, ok := c.sids[name]; ok {
		if c.App == nil || s.T0 == ts || s.T0 == 0 {
			return s
		}
		if _, exists := c.App.DidKeeper.GetSidDocumentVersion(c.Ctx, s.DocId); exists {
			return s
		}
		// a DID that is not on chain has no id yet: what stands in for it is a function of the asking moment alone, never of
		// what this process happened to execute or simulate before (replicas must build the same transaction bytes)
		delete(c.sids, name)
	}
	keys := sidDocKeys(name)
	doc, _ := didkeeper.CalculateDocId(keys, ts)
	t0 := ts
	if c.App != nil {
		// a process that did not create the DID (restarted replica) finds it on chain by its key
		want := keys[0].Value
		for _, d := range c.App.DidKeeper.GetAllSidDocument(c.Ctx) {
			if len(d.Keys) > 0 && d.Keys[0].Value == want {
				doc, t0 = d.VersionId, 0
			}
		}
	}
	s := &sidInfo{Name: name, Keys: keys, T0: t0, DocId: doc}
	c.sids[name] = s
	c.bind(name, "did:sid:"+doc)
	c.names[doc] = name // the bare document id projects to the same symbolic name
	return s
}

// sidDocPriv is the signing key of the sid document with the symbolic name doc ("s1" = root document of s1,
// "s1_v2" = the document added by its second rotation). Deterministic, so that every process derives the same keys.
func sidDocPriv(doc string) *secp256k1.PrivKey {
	return secp256k1.GenPrivKeyFromSecret([]byte("sid-doc-key:" + doc))
}

// sidDocKeys: the key set of a sid document as the did module stores it: multibase(base58btc) of the multicodec
// prefix + key bytes (0xe7 0x01 secp256k1 authentication key, 0xec 0x01 x25519 key-agreement key).
func sidDocKeys(doc string) []*didtypes.PubKey {
	auth, _ := multibase.Encode(multibase.Base58BTC, append([]byte{0xe7, 0x01}, sidDocPriv(doc).PubKey().Bytes()...))
	agree, _ := multibase.Encode(multibase.Base58BTC, append([]byte{0xec, 0x01}, sidDocPriv("agree:" + doc).PubKey().Bytes()[1:]...))
	return []*didtypes.PubKey{{Name: "authentication", Value: auth}, {Name: "keyAgreement", Value: agree}}
}

// sidOfDoc: "s1_v2" -> "s1".
func sidOfDoc(doc string) string {
	if i := strings.Index(doc, "_v"); i > 0 {
		return doc[:i]
	}
	return doc
}

// isSidDoc: the name of a sid document (s<digits> or s<digits>_v<digits>).
func isSidDoc(n string) bool {
	n = sidOfDoc(n)
	if len(n) < 2 || n[0] != 's' {
		return false
	}
	for _, r := range n[1:] {
		if r < '0' || r > '9' {
			return false
		}
	}
	return true
}

// sidDocId: the on-chain id of the sid document with the symbolic name doc ("" if it is not on chain). Found by its
// key, so a process that did not create the document finds it too.
func (c *Chain) sidDocId(doc string) string {
	// the chain first (every process finds the same), the process's own memory only for what is not on chain
	want := sidDocKeys(doc)[0].Value
	for _, d := range c.App.DidKeeper.GetAllSidDocument(c.Ctx) {
		if len(d.Keys) > 0 && d.Keys[0].Value == want {
			return d.VersionId
		}
	}
	if sidOfDoc(doc) == doc {
		return c.sid(doc, uint64(c.blockTime())).DocId
	}
	return ""
}

// signSid: a JWS made with the key of the sid document e.Signer. The protected header's kid is
//
//	did:sid:<D>?version-id=<document id of e.Signer>#authentication
//
// where D is the signer's own DID (sigmode ok / stale) or the proposal owner's DID (sigmode kidspoof: the header claims
// the owner, the version-id points at the signer's document).
func (c *Chain) signSid(e *Event, payload []byte) saotypes.JwsSignature {
	docId := c.sidDocId(e.Signer)
	if docId == "" {
		return saotypes.JwsSignature{} // the document was never put on chain: nothing to refer to
	}
	did := "did:sid:" + c.sidDocId(sidOfDoc(e.Signer))
	if e.SigMode == "kidspoof" {
		if isSidDoc(e.Owner) {
			did = "did:sid:" + c.sidDocId(e.Owner)
		} else {
			did = c.Concrete(e.Owner)
		}
	}
	hdr, _ := json.Marshal(map[string]string{"alg": "ES256K", "kid": did + "?version-id=" + docId + "#authentication"})
	protected := base64url.Encode(hdr)
	if e.SigMode == "stale" {
		payload = append([]byte("other-payload:"), payload...)
	}
	sig, err := sidDocPriv(e.Signer).Sign([]byte(protected + "." + base64url.Encode(payload)))
	if err != nil {
		return saotypes.JwsSignature{}
	}
	return saotypes.JwsSignature{Protected: protected, Signature: base64url.Encode(sig)}
}

// blockTime is the header time of the current block (what the fixed code compares proofs with).
func (c *Chain) blockTime() int64 { return 1700000000 + c.H*5 }

// bindingMsg: e.Acc = account to bind (named cosmos account, or "eth:<k>"), e.Did = symbolic sid,
// e.Amount = proof timestamp relative to the block time (seconds; 0 = now), e.SigMode:
// ok | wrongkey (proof signed by another account's key) | none; e.Status = 1 means "absolute
// timestamp in e.N" (used by the wall-clock experiment).
func (c *Chain) bindingMsg(e *Event) sdk.Msg {
	ts := uint64(c.blockTime() + e.Amount)
	if e.Status == 1 {
		ts = uint64(e.N)
	}
	s := c.sid(e.Did, ts)
	if _, exists := c.App.DidKeeper.GetSidDocumentVersion(c.Ctx, s.DocId); !exists && s.T0 != ts {
		// the DID does not exist yet: its id is derived from this (first) proof's timestamp
		delete(c.sids, e.Did)
		s = c.sid(e.Did, ts)
	}
	accName := e.Acc
	target := c.Acc(accName)
	accountId := "cosmos:" + ChainID + ":" + c.addr(accName)
	message := fmt.Sprintf("Link this account to your did: %s\nTimestamp: %d", "did:sid:"+s.DocId, ts)
	if e.SigMode == "replay" {
		// a message the account really signed, but about another did / another time
		message = fmt.Sprintf("Link this account to your did: %s\nTimestamp: %d", "did:sid:0000other", ts-100000)
	}
	sig := ""
	if isEthAcc(accName) {
		// an Ethereum account (eip155): EIP-191 personal_sign over the message, checked by public-key recovery
		accountId = ethAccountId(accName)
		c.bind(accName, accountId)
		signer := ethKey(accName)
		if e.SigMode == "wrongkey" {
			signer = ethKey(accName + "-other")
		}
		sig = "0x"
		if e.SigMode != "none" {
			hash := ethcrypto.Keccak256([]byte("\u0019Ethereum Signed Message:\n" + fmt.Sprint(len(message)) + message))
			bz, _ := ethcrypto.Sign(hash, signer)
			bz[64] += 27
			sig = "0x" + hex.EncodeToString(bz)
		} else {
			sig = "0x" + hex.EncodeToString(make([]byte, 65)) // a well-formed length, no signature in it
		}
	} else if target != nil && e.SigMode != "none" {
		signer := target
		if e.SigMode == "wrongkey" {
			signer = c.Acc(e.Creator)
			if signer == nil || signer == target {
				// any account other than the one being bound
				for _, a := range c.Accs {
					if a != target {
						signer = a
						break
					}
				}
			}
		}
		bz, _ := signer.Priv.Sign(didkeeper.GetSignData(target.Addr.String(), message))
		pk := target.Priv.PubKey().Bytes()
		if e.SigMode == "wrongkey" {
			pk = signer.Priv.PubKey().Bytes()
		}
		sig = "tendermint/PubKeySecp256k1." + base64.StdEncoding.EncodeToString(pk) + "." + base64.StdEncoding.EncodeToString(bz)
	} else {
		sig = "tendermint/PubKeySecp256k1.AAAA.AAAA"
	}
	if e.SigMode == "short" {
		// a truncated proof: the handler's own parsing must fail it (a panic inside a transaction is a failed transaction)
		if isEthAcc(accName) {
			sig = "0x"
		} else {
			sig = "tendermint/PubKeySecp256k1"
		}
	}
	accDid := "did:key:acc-" + accName + "-" + e.Did
	c.bind("ad_"+accName+"_"+e.Did, accDid)
	return &didtypes.MsgBinding{
		Creator: c.addr(e.Creator), AccountId: accountId, RootDocId: s.DocId, Keys: s.Keys,
		AccountAuth: &didtypes.AccountAuth{AccountDid: accDid, AccountEncryptedSeed: "seed", SidEncryptedAccount: "enc"},
		Proof:       &didtypes.BindingProof{Version: 1, Message: message, Signature: sig, Account: accountId, Did: "did:sid:" + s.DocId, Timestamp: ts},
	}
}

// Ethereum accounts "e1", "e2", ...: deterministic keys; the CAIP-10 id is eip155:1:<lower-case hex address>.
func isEthAcc(n string) bool {
	return len(n) >= 2 && n[0] == 'e' && strings.Trim(n[1:], "0123456789") == ""
}

func ethKey(n string) *ecdsa.PrivateKey {
	k, _ := ethcrypto.ToECDSA(ethcrypto.Keccak256([]byte("eth-account-key:" + n)))
	return k
}

func ethAccountId(n string) string {
	return "eip155:1:" + strings.ToLower(ethcrypto.PubkeyToAddress(ethKey(n).PublicKey).Hex())
}

// accountIdOf: the CAIP-10 account id of a named account (cosmos account on this chain, or Ethereum account).
func (c *Chain) accountIdOf(n string) string {
	if isEthAcc(n) {
		return ethAccountId(n)
	}
	return "cosmos:" + ChainID + ":" + c.addr(n)
}

// didUpdateMsg: key rotation of sid e.Did by e.Creator: accounts in e.Tx are removed, accounts in
// e.Datas are kept (updated); e.Amount = timestamp offset; e.Commit = past seed.
func (c *Chain) didUpdateMsg(e *Event) sdk.Msg {
	s := c.sid(e.Did, uint64(c.blockTime()))
	ts := uint64(c.blockTime() + e.Amount)
	s.Ver = 1
	if v, ok := c.App.DidKeeper.GetSidDocumentVersion(c.Ctx, s.DocId); ok {
		s.Ver = len(v.VersionList)
	}
	keys := sidDocKeys(fmt.Sprintf("%s_v%d", e.Did, s.Ver))[:1]
	doc, _ := didkeeper.CalculateDocId(keys, ts)
	c.bind(fmt.Sprintf("%s_v%d", e.Did, s.Ver), doc)
	var remove []string
	for _, a := range e.Tx {
		remove = append(remove, "did:key:acc-"+a+"-"+e.Did)
	}
	// e.Ro: further account dids to remove, given by their symbolic name "ad_<acc>_<did>" (possibly another did's)
	for _, ad := range e.Ro {
		parts := strings.Split(strings.TrimPrefix(ad, "ad_"), "_")
		if len(parts) == 2 {
			remove = append(remove, "did:key:acc-"+parts[0]+"-"+parts[1])
		}
	}
	var upd []*didtypes.AccountAuth
	for _, a := range e.Datas {
		upd = append(upd, &didtypes.AccountAuth{AccountDid: "did:key:acc-" + a + "-" + e.Did, AccountEncryptedSeed: "seed2", SidEncryptedAccount: "enc2"})
	}
	seed := e.Commit
	if seed == "" {
		seed = fmt.Sprintf("seed-%s-%d", e.Did, s.Ver)
	}
	return &didtypes.MsgUpdate{Creator: c.addr(e.Creator), Did: "did:sid:" + s.DocId, NewDocId: doc, Keys: keys, Timestamp: ts,
		UpdateAccountAuth: upd, RemoveAccountDid: remove, PastSeed: seed}
}
