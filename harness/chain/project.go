package chain

import (
	"fmt"
	"math/big"
	"sort"
	"strings"

	markettypes "github.com/SaoNetwork/sao/x/market/types"
	nodetypes "github.com/SaoNetwork/sao/x/node/types"
	"github.com/cosmos/cosmos-sdk/store/prefix"
	sdk "github.com/cosmos/cosmos-sdk/types"
	authtypes "github.com/cosmos/cosmos-sdk/x/auth/types"
	stakingtypes "github.com/cosmos/cosmos-sdk/x/staking/types"
)

// The projection: real stores -> abstract state, in exactly the shape of the
// TLA+ record `st` (spec/Types.tla). Collections are sequences in store order.

type PNode struct {
	A      string   `json:"a"`
	Status int64    `json:"status"`
	Rep    int64    `json:"rep"`
	Role   int64    `json:"role"`
	Val    string   `json:"val"`
	Tx     []string `json:"tx"`
	Alive  int64    `json:"alive"`
}
type PPledge struct {
	A     string `json:"a"`
	Cap   int64  `json:"cap"`
	Used  int64  `json:"used"`
	CapPl int64  `json:"capPl"`
	ShPl  int64  `json:"shPl"`
	Rew   int64  `json:"rew"`   // milli-coins
	Debt  int64  `json:"rdebt"` // milli-coins (reward debt of the accumulator)
}
type PDebt struct {
	A   string `json:"a"`
	Amt int64  `json:"amt"`
}
type PPool struct {
	Pledged int64 `json:"pledged"`
	Reward  int64 `json:"reward"`
	Acc     int64 `json:"acc"` // milli-coins per capacity unit (1e6 bytes)
	Storage int64 `json:"storage"`
	Blocks  int64 `json:"blocks"`
}
type POrder struct {
	Id       int64   `json:"id"`
	Creator  string  `json:"creator"`
	Owner    string  `json:"owner"`
	Provider string  `json:"provider"`
	Status   int64   `json:"status"`
	Replica  int64   `json:"replica"`
	Shards   []int64 `json:"shards"`
	Amount   int64   `json:"amount"`
	Size     int64   `json:"size"`
	Op       int64   `json:"op"`
	Created  int64   `json:"created"`
	Timeout  int64   `json:"timeout"`
	Dur      int64   `json:"dur"`
	Data     string  `json:"data"`
	Commit   string  `json:"commit"`
	PayDid   string  `json:"paydid"`
}
type PRenew struct {
	Order  int64 `json:"order"`
	Pledge int64 `json:"pledge"`
	Dur    int64 `json:"dur"`
}
type PShard struct {
	Id      int64    `json:"id"`
	Order   int64    `json:"order"`
	Status  int64    `json:"status"`
	Sp      string   `json:"sp"`
	From    string   `json:"from"`
	Pledge  int64    `json:"pledge"`
	Size    int64    `json:"size"`
	Created int64    `json:"created"`
	Dur     int64    `json:"dur"`
	Renew   []PRenew `json:"renew"`
}
type PCommit struct {
	C string `json:"c"`
	H int64  `json:"h"`
}
type PMeta struct {
	Data    string    `json:"data"`
	Owner   string    `json:"owner"`
	Alias   string    `json:"alias"`
	Order   int64     `json:"order"`
	Commit  string    `json:"commit"`
	Commits []PCommit `json:"commits"`
	Orders  []int64   `json:"orders"`
	Status  int64     `json:"status"`
	Dur     int64     `json:"dur"`
	Created int64     `json:"created"`
	Ro      []string  `json:"ro"`
	Rw      []string  `json:"rw"`
}
type PAlias struct {
	Key  string `json:"key"`
	Data string `json:"data"`
}
type PSchedS struct {
	H   int64    `json:"h"`
	Ids []string `json:"ids"`
}
type PSched struct {
	H   int64   `json:"h"`
	Ids []int64 `json:"ids"`
}
type PWorker struct {
	A       string `json:"a"`
	Storage int64  `json:"storage"`
	Rew     int64  `json:"rew"`    // micro-coins
	Income  int64  `json:"income"` // micro-coins per block
	Last    int64  `json:"last"`
}
type PPay struct {
	Did string `json:"did"`
	A   string `json:"a"`
}
type PBinding struct {
	Acc string `json:"acc"`
	Did string `json:"did"`
}
type PAccList struct {
	Did  string   `json:"did"`
	Accs []string `json:"accs"` // account DIDs
}
type PAccId struct {
	Ad  string `json:"ad"`  // account DID
	Acc string `json:"acc"` // account (name, or raw CAIP-10 id)
}
type PVersions struct {
	Doc      string   `json:"doc"`
	Versions []string `json:"versions"`
}
type PDidBal struct {
	Did string `json:"did"`
	Amt int64  `json:"amt"`
}
type PFault struct {
	Id       string  `json:"id"`
	Order    int64   `json:"order"`
	Data     string  `json:"data"`
	Shard    int64   `json:"shard"`
	Commit   string  `json:"commit"`
	Provider string  `json:"provider"`
	Reporter string  `json:"reporter"`
	Confirms []PVote `json:"confirms"`
	Status   int64   `json:"status"`
	Penalty  int64   `json:"penalty"`
}
type PVote struct {
	S string `json:"s"` // "+" confirms the fault, "-" confirms the recovery
	W string `json:"w"` // voter ("" for the reporter's implicit first "+")
}
type PFaultIdx struct {
	Provider string `json:"provider"`
	Shard    int64  `json:"shard"`
	Id       string `json:"id"`
}
type PFishing struct {
	Key string `json:"key"`
	Amt string `json:"amt"`
}
type PDeleg struct {
	D      string `json:"d"`
	V      string `json:"v"`
	Shares int64  `json:"shares"`
}
type PUnbond struct {
	D  string  `json:"d"`
	V  string  `json:"v"`
	Hs []int64 `json:"hs"` // creation heights of the unbonding entries
}
type PRedel struct {
	D   string `json:"d"`
	Src string `json:"src"`
	Dst string `json:"dst"`
	N   int64  `json:"n"` // number of redelegation entries
}
type PVal struct {
	V      string `json:"v"`
	Shares int64  `json:"shares"`
	Tokens int64  `json:"tokens"`
	Status int64  `json:"status"`
}

type State struct {
	H         int64            `json:"h"`
	Seed      int64            `json:"seed"`
	Bal       map[string]int64 `json:"bal"`
	Supply    int64            `json:"supply"`
	Nodes     []PNode          `json:"nodes"`
	Pledges   []PPledge        `json:"pledges"`
	PDebts    []PDebt          `json:"pdebts"`
	Pool      PPool            `json:"pool"`
	Round     int64            `json:"round"`
	Orders    []POrder         `json:"orders"`
	Shards    []PShard         `json:"shards"`
	OC        int64            `json:"oc"`
	SC        int64            `json:"sc"`
	Metas     []PMeta          `json:"metas"`
	Aliases   []PAlias         `json:"aliases"`
	ExpData   []PSchedS        `json:"expData"`
	TimeoutQ  []PSched         `json:"timeoutQ"`
	ExpShardQ []PSched         `json:"expShardQ"`
	Workers   []PWorker        `json:"workers"`
	Pay       []PPay           `json:"pay"`
	Kids      []PPay           `json:"kids"`
	Bindings  []PBinding       `json:"bindings"`
	DidBal    []PDidBal        `json:"didBal"`
	AccLists  []PAccList       `json:"accLists"`
	AccIds    []PAccId         `json:"accIds"`
	AccAuths  []string         `json:"accAuths"`
	Versions  []PVersions      `json:"versions"`
	Seeds     []PAccList       `json:"seeds"`
	Faults    []PFault         `json:"faults"`
	FaultIdx  []PFaultIdx      `json:"faultIdx"`
	Fishing   []PFishing       `json:"fishing"`
	Delegs    []PDeleg         `json:"delegs"`
	Vals      []PVal           `json:"vals"`
	Unbond    []PUnbond        `json:"unbond"`
	Redel     []PRedel         `json:"redel"`
	Vol       string           `json:"vol"` // process-global of the staking hooks ("" without the verif hooks, "0" when clear)
	Inexact   []string         `json:"inexact"`
	Junk      []string         `json:"junk"` // undecodable keys found under the node module's prefixes
}

// ethName: the symbolic name of a harness-made Ethereum account id (the same in every process).
func ethName(id string) string {
	for i := 1; i <= 6; i++ {
		n := fmt.Sprintf("e%d", i)
		if ethAccountId(n) == id {
			return n
		}
	}
	return id
}

var e18 = new(big.Int).Exp(big.NewInt(10), big.NewInt(18), nil)

// decScaled returns d * 10^scale as an integer and whether that is exact.
func decScaled(d sdk.Dec, scale int64) (int64, bool) {
	m := new(big.Int).Mul(d.BigInt(), new(big.Int).Exp(big.NewInt(10), big.NewInt(scale), nil))
	q, r := new(big.Int).QuoRem(m, e18, new(big.Int))
	return q.Int64(), r.Sign() == 0
}

func (c *Chain) names_(xs []string) []string {
	out := make([]string, 0, len(xs))
	for _, x := range xs {
		out = append(out, c.Name(x))
	}
	return out
}

func i64s(xs []uint64) []int64 {
	out := make([]int64, 0, len(xs))
	for _, x := range xs {
		out = append(out, int64(x))
	}
	return out
}

// BalanceNames lists the account names whose balances are part of the state.
func (c *Chain) BalanceNames() []string {
	var ns []string
	for _, a := range c.Accs {
		ns = append(ns, a.Name)
	}
	for _, v := range c.Vals {
		ns = append(ns, v.Owner.Name)
	}
	ns = append(ns, "m_order", "m_market", "m_node", "m_did", "m_bonded_tokens_pool", "m_not_bonded_tokens_pool")
	return ns
}

func (c *Chain) Project() State {
	ctx := c.Ctx
	a := c.App
	s := State{H: c.H, Seed: c.Seed(c.H), Bal: map[string]int64{}, Inexact: []string{}, Junk: []string{}}
	for _, n := range c.BalanceNames() {
		addr := sdk.MustAccAddressFromBech32(c.Concrete(n))
		s.Bal[n] = a.BankKeeper.GetBalance(ctx, addr, Denom).Amount.Int64()
	}
	s.Supply = a.BankKeeper.GetSupply(ctx, Denom).Amount.Int64()
	inex := func(path string, ok bool) {
		if !ok {
			s.Inexact = append(s.Inexact, path)
		}
	}
	s.Nodes = []PNode{}
	for _, n := range a.NodeKeeper.GetAllNode(ctx) {
		rep := int64(n.Reputation)
		inex("nodes."+c.Name(n.Creator)+".rep", float32(rep) == n.Reputation)
		s.Nodes = append(s.Nodes, PNode{A: c.Name(n.Creator), Status: int64(n.Status), Rep: rep, Role: int64(n.Role), Val: c.Name(n.Validator), Tx: c.names_(n.TxAddresses), Alive: n.LastAliveHeight})
	}
	s.Pledges = []PPledge{}
	for _, p := range a.NodeKeeper.GetAllPledge(ctx) {
		rew, ok1 := decScaled(p.Reward.Amount, 3)
		rd, ok2 := decScaled(p.RewardDebt.Amount, 3)
		inex("pledges."+c.Name(p.Creator)+".rew", ok1)
		inex("pledges."+c.Name(p.Creator)+".rdebt", ok2)
		s.Pledges = append(s.Pledges, PPledge{A: c.Name(p.Creator), Cap: p.TotalStorage, Used: p.UsedStorage, CapPl: p.TotalStoragePledged.Amount.Int64(), ShPl: p.TotalShardPledged.Amount.Int64(), Rew: rew, Debt: rd})
	}
	s.PDebts = []PDebt{}
	for _, d := range a.NodeKeeper.GetAllPledgeDebt(ctx) {
		s.PDebts = append(s.PDebts, PDebt{A: c.Name(d.Sp), Amt: d.Debt.Amount.Int64()})
	}
	if pool, ok := a.NodeKeeper.GetPool(ctx); ok {
		acc, okA := decScaled(pool.AccRewardPerByte.Amount, 9) // per byte -> per 1e6 bytes, in milli
		inex("pool.acc", okA)
		s.Pool = PPool{Pledged: pool.TotalPledged.Amount.Int64(), Reward: new(big.Int).Sub(pool.TotalReward.Amount.BigInt(), c.rewardBase()).Int64(), Acc: acc, Storage: pool.TotalStorage, Blocks: pool.RewardedBlockCount}
	}
	s.Round = -1
	if r, ok := a.NodeKeeper.GetNodeRound(ctx); ok {
		s.Round = int64(r)
	}
	s.Orders = []POrder{}
	for _, o := range a.OrderKeeper.GetAllOrder(ctx) {
		s.Orders = append(s.Orders, POrder{Id: int64(o.Id), Creator: c.Name(o.Creator), Owner: c.Name(o.Owner), Provider: c.Name(o.Provider), Status: int64(o.Status), Replica: int64(o.Replica), Shards: i64s(o.Shards), Amount: o.Amount.Amount.Int64(), Size: int64(o.Size_), Op: int64(o.Operation), Created: int64(o.CreatedAt), Timeout: int64(o.Timeout), Dur: int64(o.Duration), Data: c.Name(o.DataId), Commit: c.NameCommit(o.Commit), PayDid: c.Name(o.PaymentDid)})
	}
	s.Shards = []PShard{}
	for _, sh := range a.OrderKeeper.GetAllShard(ctx) {
		ps := PShard{Id: int64(sh.Id), Order: int64(sh.OrderId), Status: int64(sh.Status), Sp: c.Name(sh.Sp), From: c.Name(sh.From), Size: int64(sh.Size_), Created: int64(sh.CreatedAt), Dur: int64(sh.Duration), Renew: []PRenew{}}
		if !sh.Pledge.Amount.IsNil() {
			ps.Pledge = sh.Pledge.Amount.Int64()
		}
		for _, ri := range sh.RenewInfos {
			ps.Renew = append(ps.Renew, PRenew{Order: int64(ri.OrderId), Pledge: ri.Pledge.Amount.Int64(), Dur: int64(ri.Duration)})
		}
		s.Shards = append(s.Shards, ps)
	}
	s.OC = int64(a.OrderKeeper.GetOrderCount(ctx))
	s.SC = int64(a.OrderKeeper.GetShardCount(ctx))
	s.Metas = []PMeta{}
	for _, m := range a.ModelKeeper.GetAllMetadata(ctx) {
		pm := PMeta{Data: c.Name(m.DataId), Owner: c.Name(m.Owner), Alias: m.Alias, Order: int64(m.OrderId), Commit: c.NameCommit(m.Commit), Commits: []PCommit{}, Orders: i64s(m.Orders), Status: int64(m.Status), Dur: int64(m.Duration), Created: int64(m.CreatedAt), Ro: c.names_(m.ReadonlyDids), Rw: c.names_(m.ReadwriteDids)}
		for _, v := range m.Commits {
			parts := strings.Split(v, string([]byte{26}))
			var hh int64
			if len(parts) > 1 {
				fmt.Sscan(parts[1], &hh)
			}
			pm.Commits = append(pm.Commits, PCommit{C: c.NameCommit(parts[0]), H: hh})
		}
		s.Metas = append(s.Metas, pm)
	}
	s.Aliases = []PAlias{}
	for _, m := range a.ModelKeeper.GetAllModel(ctx) {
		k := m.Key
		for _, d := range c.Dids {
			k = strings.ReplaceAll(k, d.Did, d.Name)
		}
		if strings.HasPrefix(k, "did:sid:") && len(k) > 72 {
			k = c.Name(k[:72]) + k[72:] // did:sid:<64 hex> owner
		}
		s.Aliases = append(s.Aliases, PAlias{Key: k, Data: c.Name(m.Data)})
	}
	sort.SliceStable(s.Aliases, func(i, j int) bool { return dataRank(s.Aliases[i].Data) < dataRank(s.Aliases[j].Data) })
	s.ExpData = []PSchedS{}
	for _, e := range a.ModelKeeper.GetAllExpiredData(ctx) {
		s.ExpData = append(s.ExpData, PSchedS{H: int64(e.Height), Ids: c.names_(e.Data)})
	}
	s.TimeoutQ = []PSched{}
	for _, e := range a.SaoKeeper.GetAllTimeoutOrder(ctx) {
		s.TimeoutQ = append(s.TimeoutQ, PSched{H: int64(e.Height), Ids: i64s(e.OrderList)})
	}
	s.ExpShardQ = []PSched{}
	for _, e := range a.SaoKeeper.GetAllExpiredShard(ctx) {
		s.ExpShardQ = append(s.ExpShardQ, PSched{H: int64(e.Height), Ids: i64s(e.ShardList)})
	}
	s.Workers = []PWorker{}
	for _, w := range a.MarketKeeper.GetAllWorker(ctx) {
		name := c.Name(strings.TrimPrefix(w.Workername, Denom+"-"))
		rew, ok1 := decScaled(w.Reward.Amount, 6)
		inc, ok2 := decScaled(w.IncomePerSecond.Amount, 6)
		inex("workers."+name+".rew", ok1)
		inex("workers."+name+".income", ok2)
		s.Workers = append(s.Workers, PWorker{A: name, Storage: int64(w.Storage), Rew: rew, Income: inc, Last: w.LastRewardAt})
	}
	_ = markettypes.ModuleName
	s.Pay = []PPay{}
	for _, p := range a.DidKeeper.GetAllPaymentAddress(ctx) {
		s.Pay = append(s.Pay, PPay{Did: c.Name(p.Did), A: c.Name(p.Address)})
	}
	sort.SliceStable(s.Pay, func(i, j int) bool { return s.Pay[i].Did < s.Pay[j].Did })
	s.Kids = []PPay{}
	for _, k := range a.DidKeeper.GetAllKid(ctx) {
		s.Kids = append(s.Kids, PPay{Did: c.Name(k.Kid), A: c.Name(k.Address)})
	}
	s.Bindings = []PBinding{}
	for _, d := range a.DidKeeper.GetAllDid(ctx) {
		acc := d.AccountId
		if strings.HasPrefix(acc, "cosmos:"+ChainID+":") {
			acc = c.Name(strings.TrimPrefix(acc, "cosmos:"+ChainID+":"))
		} else {
			acc = ethName(acc)
		}
		s.Bindings = append(s.Bindings, PBinding{Acc: acc, Did: c.Name(d.Did)})
	}
	s.DidBal = []PDidBal{}
	for _, b := range a.DidKeeper.GetAllDidBalances(ctx) {
		s.DidBal = append(s.DidBal, PDidBal{Did: c.Name(b.Did), Amt: b.Balance.Amount.Int64()})
	}
	accName := func(id string) string {
		if strings.HasPrefix(id, "cosmos:"+ChainID+":") {
			return c.Name(strings.TrimPrefix(id, "cosmos:"+ChainID+":"))
		}
		return ethName(id)
	}
	s.AccLists, s.AccIds, s.AccAuths, s.Versions, s.Seeds = []PAccList{}, []PAccId{}, []string{}, []PVersions{}, []PAccList{}
	for _, l := range a.DidKeeper.GetAllAccountList(ctx) {
		s.AccLists = append(s.AccLists, PAccList{Did: c.Name(l.Did), Accs: c.names_(l.AccountDids)})
	}
	for _, x := range a.DidKeeper.GetAllAccountId(ctx) {
		s.AccIds = append(s.AccIds, PAccId{Ad: c.Name(x.AccountDid), Acc: accName(x.AccountId)})
	}
	for _, x := range a.DidKeeper.GetAllAccountAuth(ctx) {
		s.AccAuths = append(s.AccAuths, c.Name(x.AccountDid))
	}
	for _, v := range a.DidKeeper.GetAllSidDocumentVersion(ctx) {
		s.Versions = append(s.Versions, PVersions{Doc: c.Name("did:sid:" + v.DocId), Versions: c.names_(v.VersionList)})
	}
	for _, v := range a.DidKeeper.GetAllPastSeeds(ctx) {
		s.Seeds = append(s.Seeds, PAccList{Did: c.Name(v.Did), Accs: v.Seeds})
	}
	sort.SliceStable(s.AccLists, func(i, j int) bool { return s.AccLists[i].Did < s.AccLists[j].Did })
	sort.SliceStable(s.AccIds, func(i, j int) bool { return s.AccIds[i].Ad < s.AccIds[j].Ad })
	sort.Strings(s.AccAuths)
	sort.SliceStable(s.Versions, func(i, j int) bool { return s.Versions[i].Doc < s.Versions[j].Doc })
	sort.SliceStable(s.Seeds, func(i, j int) bool { return s.Seeds[i].Did < s.Seeds[j].Did })
	sort.SliceStable(s.Bindings, func(i, j int) bool { return s.Bindings[i].Acc < s.Bindings[j].Acc })
	// raw stores of the node module that have no exported getter
	nk := a.GetKey(nodetypes.StoreKey)
	s.Faults, s.FaultIdx, s.Fishing = []PFault{}, []PFaultIdx{}, []PFishing{}
	{
		st := prefix.NewStore(ctx.KVStore(nk), nodetypes.KeyPrefix(nodetypes.FaultIdKeyPrefix))
		it := sdk.KVStorePrefixIterator(st, []byte{})
		for ; it.Valid(); it.Next() {
			var f nodetypes.Fault
			if err := c.encCfg.Marshaler.Unmarshal(it.Value(), &f); err != nil {
				s.Junk = append(s.Junk, "faultId:"+string(it.Key()))
				continue
			}
			s.Faults = append(s.Faults, PFault{Id: "F_" + c.Name(f.Provider) + "_" + fmt.Sprint(f.ShardId), Order: int64(f.OrderId), Data: c.Name(f.DataId), Shard: int64(f.ShardId), Commit: c.NameCommit(f.CommitId), Provider: c.Name(f.Provider), Reporter: c.Name(f.Reporter), Confirms: c.votes(f.Confirms), Status: int64(f.Status), Penalty: int64(f.Penalty)})
		}
		it.Close()
		st2 := prefix.NewStore(ctx.KVStore(nk), nodetypes.KeyPrefix(nodetypes.FaultKeyPrefix))
		it2 := sdk.KVStorePrefixIterator(st2, []byte{})
		for ; it2.Valid(); it2.Next() {
			k := it2.Key() // provider ++ shardId(8 bytes) ++ "/"
			if len(k) < 10 || k[len(k)-1] != '/' {
				s.Junk = append(s.Junk, "fault:"+c.renameAll(fmt.Sprintf("%q", string(k))))
				continue
			}
			s.FaultIdx = append(s.FaultIdx, PFaultIdx{Provider: c.Name(string(k[:len(k)-9])), Shard: int64(u64(k[len(k)-9 : len(k)-1])), Id: "F_" + c.Name(string(k[:len(k)-9])) + "_" + fmt.Sprint(u64(k[len(k)-9:len(k)-1]))})
		}
		it2.Close()
		st3 := prefix.NewStore(ctx.KVStore(nk), nodetypes.KeyPrefix(nodetypes.FishingRewardKey))
		it3 := sdk.KVStorePrefixIterator(st3, []byte{})
		for ; it3.Valid(); it3.Next() {
			s.Fishing = append(s.Fishing, PFishing{Key: c.Name(string(it3.Key())), Amt: string(it3.Value())})
		}
		it3.Close()
	}
	// staking part read by the node hooks
	s.Delegs, s.Vals = []PDeleg{}, []PVal{}
	for _, v := range c.Vals {
		val, ok := a.StakingKeeper.GetValidator(ctx, v.ValAddr)
		if !ok {
			continue
		}
		sh, okS := decScaled(val.DelegatorShares, 0)
		inex("vals."+v.Name+".shares", okS)
		s.Vals = append(s.Vals, PVal{V: v.Name, Shares: sh, Tokens: val.Tokens.Int64(), Status: int64(val.Status)})
		for _, d := range a.StakingKeeper.GetValidatorDelegations(ctx, v.ValAddr) {
			ds, okD := decScaled(d.Shares, 0)
			inex("delegs."+c.Name(d.DelegatorAddress)+"."+v.Name, okD)
			s.Delegs = append(s.Delegs, PDeleg{D: c.Name(d.DelegatorAddress), V: v.Name, Shares: ds})
		}
	}
	if v, who := volatileShares(); v != "" {
		if d, err := sdk.NewDecFromStr(v); err == nil && d.IsZero() {
			s.Vol = "0"
		} else {
			_ = who
			s.Vol = v
		}
	}
	s.Unbond = []PUnbond{}
	for _, n := range c.BalanceNames() {
		if strings.HasPrefix(n, "m_") {
			continue
		}
		addr := sdk.MustAccAddressFromBech32(c.Concrete(n))
		for _, u := range a.StakingKeeper.GetUnbondingDelegations(ctx, addr, 100) {
			pu := PUnbond{D: n, V: c.Name(u.ValidatorAddress), Hs: []int64{}}
			for _, e := range u.Entries {
				pu.Hs = append(pu.Hs, e.CreationHeight)
			}
			s.Unbond = append(s.Unbond, pu)
		}
	}
	s.Redel = []PRedel{}
	for _, n := range c.BalanceNames() {
		if strings.HasPrefix(n, "m_") {
			continue
		}
		addr := sdk.MustAccAddressFromBech32(c.Concrete(n))
		for _, r := range a.StakingKeeper.GetRedelegations(ctx, addr, 100) {
			s.Redel = append(s.Redel, PRedel{D: n, Src: c.Name(r.ValidatorSrcAddress), Dst: c.Name(r.ValidatorDstAddress), N: int64(len(r.Entries))})
		}
	}
	sort.Strings(s.Inexact)
	_ = authtypes.ModuleName
	_ = stakingtypes.ModuleName
	return s
}

// NameCommit maps a stored commit string to its symbolic form (segments joined by "|").
func (c *Chain) NameCommit(s string) string {
	parts := strings.Split(s, "|")
	for i, p := range parts {
		parts[i] = c.Name(p)
	}
	return strings.Join(parts, "|")
}

// renameAll replaces every known concrete value occurring in s by its name.
func (c *Chain) renameAll(s string) string {
	for conc, n := range c.names {
		if len(conc) > 8 {
			s = strings.ReplaceAll(s, conc, n)
		}
	}
	return s
}

// dataRank orders symbolic data ids D1 < D2 < ... < D10 (unknown ids last).
func dataRank(d string) int {
	if len(d) >= 2 && d[0] == 'D' && isDigits(d[1:]) {
		n := 0
		fmt.Sscan(d[1:], &n)
		return n
	}
	return 1 << 30
}

func (c *Chain) votes(confirms string) []PVote {
	out := []PVote{}
	for _, p := range strings.Split(confirms, "|") {
		if p == "" {
			continue
		}
		out = append(out, PVote{S: p[:1], W: c.Name(p[1:])})
	}
	return out
}
