package chain

import (
	"bufio"
	"encoding/json"
	"fmt"
	"math/rand"
	"os"
	"sort"
	"strings"
)

// TraceWriter writes ndjson traces: a genesis line, then one line per event with
// the event, its outcome on the real code and the full projected state.
type TraceWriter struct {
	f   *os.File
	w   *bufio.Writer
	Seq int
}

type GenesisLine struct {
	Kind  string                 `json:"kind"`
	Cfg   map[string]interface{} `json:"cfg"`
	Names map[string]string      `json:"names"`
	Raw   Config                 `json:"rawcfg"`
	Post  State                  `json:"post"`
}

type EventLine struct {
	Kind string  `json:"kind"`
	Seq  int     `json:"seq"`
	Ev   Event   `json:"ev"`
	Out  Outcome `json:"out"`
	Post State   `json:"post"`
}

func NewTraceWriter(path string) (*TraceWriter, error) {
	f, err := os.Create(path)
	if err != nil {
		return nil, err
	}
	return &TraceWriter{f: f, w: bufio.NewWriterSize(f, 1<<20)}, nil
}

func (t *TraceWriter) Genesis(c *Chain) error {
	names := map[string]string{}
	for k, v := range c.concr {
		names[k] = v
	}
	b, err := json.Marshal(GenesisLine{Kind: "genesis", Cfg: c.SpecConfig(), Names: names, Raw: c.Cfg, Post: c.Project()})
	if err != nil {
		return err
	}
	t.w.Write(b)
	t.w.WriteByte('\n')
	return nil
}

func (t *TraceWriter) Event(e Event, o Outcome, post State) error {
	t.Seq++
	b, err := json.Marshal(EventLine{Kind: "event", Seq: t.Seq, Ev: e, Out: o, Post: post})
	if err != nil {
		return err
	}
	t.w.Write(b)
	t.w.WriteByte('\n')
	return nil
}

func (t *TraceWriter) Close() error {
	if err := t.w.Flush(); err != nil {
		return err
	}
	return t.f.Close()
}

// Step executes e, records it, and returns the outcome and post-state.
func (c *Chain) Step(t *TraceWriter, e Event) (Outcome, State) {
	o := c.Exec(&e)
	post := c.Project()
	if post.exceeds32() && o.Result != "PANIC" && o.Result != "HANG" {
		// TLC's integers are 32 bit: a state with a larger number in it cannot be judged by the specification. The trace
		// ends BEFORE this step (it is not written); a driver stops, a replay goes on unrecorded.
		o.Result = "RANGE"
		return o, post
	}
	if t != nil {
		t.Event(e, o, post)
	}
	return o, post
}

// exceeds32: some projected number is outside TLC's integer range.
func (s *State) exceeds32() bool {
	const lim = int64(1)<<31 - 1
	big := func(x int64) bool { return x > lim || x < -lim }
	if big(s.Supply) || big(s.Pool.Reward) || big(s.Pool.Acc) || big(s.Pool.Storage) || big(s.Pool.Pledged) {
		return true
	}
	for _, v := range s.Bal {
		if big(v) {
			return true
		}
	}
	for _, w := range s.Workers {
		if big(w.Rew) || big(w.Income) || big(w.Storage) {
			return true
		}
	}
	for _, p := range s.Pledges {
		if big(p.Rew) || big(p.Debt) || big(p.Cap) || big(p.Used) {
			return true
		}
	}
	for _, o := range s.Orders {
		if big(o.Amount) || big(o.Size) || big(o.Dur) {
			return true
		}
	}
	for _, sh := range s.Shards {
		if big(sh.Pledge) || big(sh.Size) || big(sh.Dur) {
			return true
		}
	}
	return false
}

// ---------------------------------------------------------------------------
// Random, state-aware driver. It chooses events from the real (projected) state
// so that it keeps exploring sensibly whatever the code under test does.

type Driver struct {
	C    *Chain
	T    *TraceWriter
	R    *rand.Rand
	P    Profile
	St   State
	nd   int // next data id
	nc   int // next commit id
	Stop string

	everBound map[string][]string // did -> accounts seen bound to it at some time
}

// Profile holds event weights and value pools for one family of properties.
type Profile struct {
	Name        string
	Nodes       []string // accounts that register as nodes in the setup
	Gateways    []string // nodes with the gateway bit
	HotKeys     map[string][]string
	PayAcc      map[string]string // did -> payment account
	Sids        map[string]string // sid DIDs that own models: sid -> the account that creates it (its payment account); also in PayAcc
	Weights     map[string]int
	Sizes       []int64
	Durs        []int64
	Timeouts    []int64
	Caps        []int64
	MaxData     int
	Adversarial int      // percent of events drawn from the adversarial pool
	Replicas    []int64  // replica counts for new stores (default 1..3)
	LateNodes   []string // accounts that may register as nodes later in the trace
	RenewMulti  int      // percent of renewals that name several models of the owner (default 25)
	RenewLonger int      // percent of renewals asking for twice the longest term any shard of the model has so far
	ForcePush   int      // percent of updates that are force-pushes (default 25)
	Staking     bool     // run x/staking's end-blocker too (profiles with staking messages)
	Vals        []string // validators the staking events address (default v1, v2); more than two: the active set rotates (cfg maxValidators)
	ShortBlocks bool     // keep block advances short (reward traces stay inside the exact fragment)
	MaxUnits    int64    // keep the pool's pledged capacity at or below this many units of 10^6 bytes (exact reward shares)
}

func (d *Driver) pick(xs []string) string { return xs[d.R.Intn(len(xs))] }
func (d *Driver) pickI(xs []int64) int64  { return xs[d.R.Intn(len(xs))] }

func (d *Driver) do(e Event) Outcome {
	o, post := d.C.Step(d.T, e)
	d.St = post
	for _, b := range post.Bindings {
		if d.everBound == nil {
			d.everBound = map[string][]string{}
		}
		seen := false
		for _, a := range d.everBound[b.Did] {
			seen = seen || a == b.Acc
		}
		if !seen {
			d.everBound[b.Did] = append(d.everBound[b.Did], b.Acc)
		}
	}
	if o.Result == "PANIC" || o.Result == "HANG" || o.Result == "RANGE" {
		d.Stop = o.Result
	}
	return o
}

// Setup registers DIDs' payment addresses and nodes.
func (d *Driver) Setup() {
	p := d.P
	dids := make([]string, 0, len(p.PayAcc))
	for k := range p.PayAcc {
		dids = append(dids, k)
	}
	sort.Strings(dids)
	for _, did := range dids {
		if acc, ok := p.Sids[did]; ok {
			// a sid DID comes into being with its first binding; that account is its payment address
			d.do(Event{Kind: "Binding", Creator: acc, Acc: acc, Did: did})
			continue
		}
		d.do(Event{Kind: "PayAddr", Creator: p.PayAcc[did], Acc: p.PayAcc[did], Did: did})
	}
	for _, n := range p.Nodes {
		d.do(Event{Kind: "Create", Creator: n})
		status := int64(1 | 4 | 8)
		for _, g := range p.Gateways {
			if g == n {
				status = 1 | 2 | 4 | 8
			}
		}
		d.do(Event{Kind: "Reset", Creator: n, Status: status, Tx: p.HotKeys[n]})
		d.do(Event{Kind: "AddVstorage", Creator: n, Size: d.pickI(p.Caps)})
	}
}

func (d *Driver) weighted() string {
	tot := 0
	keys := make([]string, 0, len(d.P.Weights))
	for k := range d.P.Weights {
		keys = append(keys, k)
	}
	sort.Strings(keys)
	for _, k := range keys {
		tot += d.P.Weights[k]
	}
	x := d.R.Intn(tot)
	for _, k := range keys {
		x -= d.P.Weights[k]
		if x < 0 {
			return k
		}
	}
	return keys[0]
}

func (d *Driver) ownerDids() []string {
	var out []string
	for k := range d.P.PayAcc {
		out = append(out, k)
	}
	sort.Strings(out)
	return out
}

func (d *Driver) gatewayFor(r *rand.Rand) (creator, provider string) {
	g := d.pick(d.P.Gateways)
	if hk := d.P.HotKeys[g]; len(hk) > 0 && r.Intn(3) == 0 {
		return d.pick(hk), g
	}
	return g, g
}

// nextScheduled returns the scheduled heights (timeout, shard expiry, data expiry) above h.
func (d *Driver) scheduled() []int64 {
	var hs []int64
	for _, q := range d.St.TimeoutQ {
		hs = append(hs, q.H)
	}
	for _, q := range d.St.ExpShardQ {
		hs = append(hs, q.H)
	}
	for _, q := range d.St.ExpData {
		hs = append(hs, q.H)
	}
	sort.Slice(hs, func(i, j int) bool { return hs[i] < hs[j] })
	var out []int64
	for _, h := range hs {
		if h >= d.St.H {
			out = append(out, h)
		}
	}
	return out
}

func (d *Driver) blocksEvent() Event {
	sch := d.scheduled()
	n := int64(1 + d.R.Intn(3))
	if d.R.Intn(25) == 0 {
		// a long silence: an order with a waiting shard is left alone for as many timeout intervals as the timeout mechanism
		// can possibly need (ten of waiting and one turn for every node, and some) - afterwards it must be settled
		for _, sh := range d.St.Shards {
			if sh.Status != 0 {
				continue
			}
			if o := d.findOrder(sh.Order); o != nil && o.Timeout > 0 && o.Timeout <= 40 {
				st := int64(0)
				if d.P.Staking {
					st = 1
				}
				return Event{Kind: "Blocks", N: (int64(len(d.St.Nodes))+14)*o.Timeout + 2, Status: st}
			}
		}
	}
	if d.P.ShortBlocks {
		st := int64(0)
		if d.P.Staking {
			st = 1
		}
		if d.R.Intn(10) == 0 {
			return Event{Kind: "Blocks", N: int64(1 + d.R.Intn(40)), Status: st}
		}
		return Event{Kind: "Blocks", N: int64(1 + d.R.Intn(6)), Status: st}
	}
	if len(sch) > 0 && d.R.Intn(100) < 70 {
		// EndBlock at height X runs when advancing from X to X+1.
		target := sch[0]
		if len(sch) > 1 && d.R.Intn(4) == 0 {
			target = sch[d.R.Intn(len(sch))]
		}
		dist := target - d.St.H // blocks to advance so that we stand AT target (its end block not yet run)
		switch d.R.Intn(4) {
		case 0:
			n = dist // stop just before the scheduled end block runs
		case 1, 2:
			n = dist + 1 // run it
		case 3:
			n = dist + 2
		}
		if n < 1 {
			n = 1
		}
	}
	if n > 12000 {
		n = 12000
	}
	if d.P.Staking {
		return Event{Kind: "Blocks", N: n, Status: 1}
	}
	return Event{Kind: "Blocks", N: n}
}

func (d *Driver) findMeta(data string) *PMeta {
	for i := range d.St.Metas {
		if d.St.Metas[i].Data == data {
			return &d.St.Metas[i]
		}
	}
	return nil
}

func (d *Driver) findOrder(id int64) *POrder {
	for i := range d.St.Orders {
		if d.St.Orders[i].Id == id {
			return &d.St.Orders[i]
		}
	}
	return nil
}

func (d *Driver) findShard(id int64) *PShard {
	for i := range d.St.Shards {
		if d.St.Shards[i].Id == id {
			return &d.St.Shards[i]
		}
	}
	return nil
}

func (d *Driver) actFor(node string) (creator, provider string) {
	if hk := d.P.HotKeys[node]; len(hk) > 0 && d.R.Intn(4) == 0 {
		return d.pick(hk), node
	}
	return node, node
}

// Next produces the next event.
func (d *Driver) Next() Event {
	e := d.nextRaw()
	for tries := 0; tries < 20 && d.emptiesValidatorSet(e); tries++ {
		e = d.nextRaw()
	}
	d.sidSigner(&e)
	return e
}

// emptiesValidatorSet: stake is withdrawn from the last validator that has any consensus power. A chain whose validator set
// becomes empty stops (the consensus engine, not the application, and no export of it can be imported): such histories are
// outside what the properties speak of.
func (d *Driver) emptiesValidatorSet(e Event) bool {
	if e.Kind != "Undelegate" && e.Kind != "Redelegate" {
		return false
	}
	withPower := 0
	for _, v := range d.St.Vals {
		t := v.Tokens
		if v.V == e.Val {
			t -= e.Amount
		}
		if e.Kind == "Redelegate" && v.V == e.Val2 {
			t += e.Amount
		}
		if t >= 1000000 {
			withPower++
		}
	}
	return withPower == 0
}

// sidSigner: a request of a sid DID is signed with the key of one of its documents: mostly the latest, sometimes an
// older version (rotation adds documents).
func (d *Driver) sidSigner(e *Event) {
	if len(d.P.Sids) == 0 || e.Signer == "" {
		return
	}
	if _, ok := d.P.Sids[e.Signer]; !ok {
		return
	}
	for _, v := range d.St.Versions {
		if v.Doc == e.Signer && len(v.Versions) > 0 {
			if d.R.Intn(10) < 6 {
				e.Signer = v.Versions[len(v.Versions)-1]
			} else {
				e.Signer = d.pick(v.Versions)
			}
			return
		}
	}
}

// vals: the validators the staking events of this profile address.
func (d *Driver) vals() []string {
	if len(d.P.Vals) > 0 {
		return d.P.Vals
	}
	return []string{"v1", "v2"}
}

// rotating: a profile with more validators than the active set holds.
func (d *Driver) rotating() bool { return len(d.P.Vals) > 2 }

func isOperator(a string) bool { return strings.HasPrefix(a, "vo") }

// sidDocs: every sid document on chain.
func (d *Driver) sidDocs() []string {
	var out []string
	for _, v := range d.St.Versions {
		out = append(out, v.Versions...)
	}
	return out
}

func (d *Driver) nextRaw() Event {
	for tries := 0; tries < 50; tries++ {
		k := d.weighted()
		switch k {
		case "Blocks":
			return d.blocksEvent()
		case "StoreNew":
			// a data id that does not exist (any more): fresh ids first, later also re-creation of deleted ones
			var free []string
			for i := 1; i <= d.P.MaxData; i++ {
				if d.findMeta(fmt.Sprintf("D%d", i)) == nil {
					free = append(free, fmt.Sprintf("D%d", i))
				}
			}
			if len(free) == 0 {
				continue
			}
			data := free[d.R.Intn(len(free))]
			owner := d.pick(d.ownerDids())
			cr, pv := d.gatewayFor(d.R)
			rep := int64(1 + d.R.Intn(3))
			if len(d.P.Replicas) > 0 {
				rep = d.pickI(d.P.Replicas)
			}
			e := Event{Kind: "Store", Creator: cr, Provider: pv, Gw: pv, Owner: owner, Signer: owner, Data: data, Commit: data, Op: 1, Dur: d.pickI(d.P.Durs), Replica: rep, Timeout: d.pickI(d.P.Timeouts), Size: d.pickI(d.P.Sizes), Alias: "al" + data}
			_, sidOwner := d.P.Sids[owner]
			if d.R.Intn(5) == 0 || (sidOwner && d.R.Intn(2) == 0) {
				// let the owner's own account submit: for a sid did's bound account the order is only recorded (pending) and the
				// gateway has to declare itself Ready; for key dids this is the error path
				e.Creator = d.P.PayAcc[owner]
				if sidOwner && d.R.Intn(2) == 0 {
					// ... or one of the accounts that are, or once were, bound to the did as well
					e.Creator = d.pick([]string{"a05", "a06", "a11", "a12"})
				}
			}
			switch d.R.Intn(4) {
			case 0:
				others := d.ownerDids()
				e.Rw = []string{d.pick(others)}
			case 1:
				// readers named at creation: they may read, and nothing else
				others := d.ownerDids()
				e.Ro = []string{d.pick(others)}
			}
			return e
		case "StoreUpdate":
			if len(d.St.Metas) == 0 {
				continue
			}
			m := d.St.Metas[d.R.Intn(len(d.St.Metas))]
			d.nc++
			newc := fmt.Sprintf("c%d", d.nc)
			signer := m.Owner
			if len(m.Rw) > 0 && d.R.Intn(2) == 0 {
				signer = d.pick(m.Rw)
			}
			cr, pv := d.gatewayFor(d.R)
			op := int64(1)
			fp := d.P.ForcePush
			if fp == 0 {
				fp = 25
			}
			if d.R.Intn(100) < fp {
				op = 2
			}
			return Event{Kind: "Store", Creator: cr, Provider: pv, Gw: pv, Owner: signer, Signer: signer, Data: m.Data, Commit: m.Commit + "|" + newc, Op: op, Dur: d.pickI(d.P.Durs), Replica: int64(1 + d.R.Intn(3)), Timeout: d.pickI(d.P.Timeouts), Size: d.pickI(d.P.Sizes), Alias: m.Alias}
		case "StoreForeign":
			// somebody who is neither owner nor grantee signs his own, perfectly valid update of the model,
			// with every shape of base version
			if len(d.St.Metas) == 0 {
				continue
			}
			m := d.St.Metas[d.R.Intn(len(d.St.Metas))]
			var others []string
			for _, x := range d.ownerDids() {
				if x != m.Owner {
					others = append(others, x)
				}
			}
			if len(others) == 0 {
				continue
			}
			sg := d.pick(others)
			d.nc++
			newc := fmt.Sprintf("c%d", d.nc)
			base := []string{m.Commit, m.Commit, m.Data, "", m.Commit + "~"}[d.R.Intn(5)]
			cr, pv := d.gatewayFor(d.R)
			return Event{Kind: "Store", Creator: cr, Provider: pv, Gw: pv, Owner: sg, Signer: sg, Data: m.Data, Commit: base + "|" + newc, Op: int64(1 + d.R.Intn(2)),
				Dur: d.pickI(d.P.Durs), Replica: 1, Timeout: d.pickI(d.P.Timeouts), Size: d.pickI(d.P.Sizes), Alias: m.Alias}
		case "StoreSponsored":
			// a payment did is named explicitly (the owner's own, or a sponsor's); submitted by its payment address,
			// by the gateway, or by somebody else altogether
			owner := d.pick(d.ownerDids())
			paydid := owner
			if d.R.Intn(2) == 0 {
				paydid = d.pick(d.ownerDids())
			}
			if d.R.Intn(3) == 0 {
				// an owner who has no payment address of his own (a key did nobody registered one for): only a sponsor can pay;
				// every later refund of this order has nowhere obvious to go
				for _, x := range d.allKeyDids() {
					if _, has := d.P.PayAcc[x]; !has {
						owner = x
						break
					}
				}
				if paydid == owner {
					paydid = d.pick(d.ownerDids())
				}
			}
			creator := d.P.PayAcc[paydid]
			switch d.R.Intn(3) {
			case 1:
				creator = d.pick(d.P.Gateways)
			case 2:
				creator = d.pick(d.allAccounts())
			}
			if creator == "" {
				creator = d.pick(d.P.Gateways) // the named payer has no payment address either
			}
			var free []string
			for i := 1; i <= d.P.MaxData; i++ {
				if d.findMeta(fmt.Sprintf("D%d", i)) == nil {
					free = append(free, fmt.Sprintf("D%d", i))
				}
			}
			if len(free) == 0 {
				continue
			}
			data := free[d.R.Intn(len(free))]
			gw := d.pick(d.P.Gateways)
			return Event{Kind: "Store", Creator: creator, Provider: gw, Gw: gw, Owner: owner, Signer: owner, PayDid: paydid, Data: data, Commit: data, Op: 1,
				Dur: d.pickI(d.P.Durs), Replica: int64(1 + d.R.Intn(2)), Timeout: d.pickI(d.P.Timeouts), Size: d.pickI(d.P.Sizes), Alias: "al" + data}
		case "StoreOddBase":
			// the owner himself names a base that is not exactly the latest version
			if len(d.St.Metas) == 0 {
				continue
			}
			m := d.St.Metas[d.R.Intn(len(d.St.Metas))]
			d.nc++
			newc := fmt.Sprintf("c%d", d.nc)
			commit := []string{"|" + newc, m.Commit + "~|" + newc, m.Data + "|" + newc, "c999|" + newc, newc, newc}[d.R.Intn(6)]
			cr, pv := d.gatewayFor(d.R)
			return Event{Kind: "Store", Creator: cr, Provider: pv, Gw: pv, Owner: m.Owner, Signer: m.Owner, Data: m.Data, Commit: commit, Op: int64(1 + d.R.Intn(2)),
				Dur: d.pickI(d.P.Durs), Replica: 1, Timeout: d.pickI(d.P.Timeouts), Size: d.pickI(d.P.Sizes), Alias: m.Alias}
		case "Complete":
			var cands []PShard
			for _, s := range d.St.Shards {
				if s.Status == 0 || s.Status == 4 {
					cands = append(cands, s)
				}
			}
			if len(cands) == 0 {
				continue
			}
			s := cands[d.R.Intn(len(cands))]
			oid := s.Order
			// a migrating shard is listed by the order it was created in
			for _, o := range d.St.Orders {
				for _, id := range o.Shards {
					if id == s.Id {
						oid = o.Id
					}
				}
			}
			cr, pv := d.actFor(s.Sp)
			return Event{Kind: "Complete", Creator: cr, Provider: pv, Order: oid, Size: s.Size}
		case "Cancel":
			var cands []POrder
			for _, o := range d.St.Orders {
				if o.Status != 3 {
					cands = append(cands, o)
				}
			}
			if len(cands) == 0 {
				continue
			}
			o := cands[d.R.Intn(len(cands))]
			prov := o.Provider
			return Event{Kind: "Cancel", Creator: o.Creator, Provider: prov, Order: o.Id}
		case "CreateLate":
			var cands []string
			for _, a := range d.P.LateNodes {
				known := false
				for _, n := range d.St.Nodes {
					if n.A == a {
						known = true
					}
				}
				if !known {
					cands = append(cands, a)
				}
			}
			if len(cands) == 0 {
				continue
			}
			a := d.pick(cands)
			d.P.Nodes = append(d.P.Nodes, a)
			d.do(Event{Kind: "Create", Creator: a})
			return Event{Kind: "Reset", Creator: a, Status: 13}
		case "Delegate", "Undelegate":
			who := d.pick(append(append([]string{}, d.P.Nodes...), "a09", "a10", "a11", "a12", "a08"))
			val := d.pick(d.vals())
			amts := []int64{10, 1000, 50000, 150000, 250000, 400000, 1000000}
			if d.rotating() {
				// whole units of consensus power (10^6 tokens) move validators in and out of the active set
				amts = []int64{10, 250000, 400000, 1000000, 1000000, 2000000, 3000000}
			}
			amt := amts[d.R.Intn(7)]
			if k == "Delegate" && d.R.Intn(7) == 0 {
				amt = 20000000 // more than the balance: fails after the first staking hook ran
				if d.R.Intn(3) == 0 {
					// ... attempted by the validator's own operator account: the largest delegation there is
					who = "vo" + val[1:]
				}
			}
			if k == "Undelegate" {
				// prefer an existing delegation, sometimes all of it
				var mine []PDeleg
				for _, x := range d.St.Delegs {
					if !isOperator(x.D) || d.rotating() { // (an operator who withdraws his own stake takes his validator out of the set)
						mine = append(mine, x)
					}
				}
				if len(mine) > 0 && d.R.Intn(5) != 0 {
					x := mine[d.R.Intn(len(mine))]
					who, val = x.D, x.V
					if d.R.Intn(3) == 0 {
						amt = x.Shares
					} else if amt > x.Shares {
						amt = x.Shares / 2
						if amt == 0 {
							amt = x.Shares
						}
					}
				}
			}
			return Event{Kind: k, Creator: who, Val: val, Amount: amt}
		case "Redelegate":
			var mine []PDeleg
			for _, x := range d.St.Delegs {
				if !isOperator(x.D) {
					mine = append(mine, x)
				}
			}
			if len(mine) == 0 {
				continue
			}
			x := mine[d.R.Intn(len(mine))]
			dst := "v1"
			if x.V == "v1" || d.R.Intn(6) == 0 {
				dst = "v2"
			}
			if d.rotating() {
				dst = d.pick(d.vals())
			}
			amt := x.Shares
			if d.R.Intn(2) == 0 && x.Shares > 1 {
				amt = x.Shares / 2
			}
			return Event{Kind: "Redelegate", Creator: x.D, Val: x.V, Val2: dst, Amount: amt}
		case "ExAccountStore":
			// an account that is - or was, before a key rotation dropped it - bound to a model-owning sid did submits an
			// owner-signed update itself (no gateway involved): only a currently bound account may
			var cands []PMeta
			for _, m := range d.St.Metas {
				if _, ok := d.P.Sids[m.Owner]; ok && m.Status == 4 {
					cands = append(cands, m)
				}
			}
			if len(cands) == 0 {
				continue
			}
			m := cands[d.R.Intn(len(cands))]
			d.nc++
			newc := fmt.Sprintf("c%d", d.nc)
			gw := d.pick(d.P.Gateways)
			who := d.pick([]string{"a05", "a06", "a11", "a12"})
			if eb := d.everBound[m.Owner]; len(eb) > 1 && d.R.Intn(4) != 0 {
				who = d.pick(eb[1:]) // accounts bound to this did at some time (other than its first, the payment account)
			}
			return Event{Kind: "Store", Creator: who, Provider: gw, Gw: gw, Owner: m.Owner, Signer: m.Owner,
				Data: m.Data, Commit: m.Commit + "|" + newc, Op: 1, Dur: d.pickI(d.P.Durs), Replica: 1, Timeout: d.pickI(d.P.Timeouts), Size: d.pickI(d.P.Sizes), Alias: m.Alias}
		case "ValRotate":
			// state-directed: a validator outside the active set gets just enough stake to overtake the weakest one inside
			// (or exactly as much: the tie goes to the lower address); or the weakest inside loses enough to fall behind
			var in, out []PVal
			for _, v := range d.St.Vals {
				if v.Status == 3 {
					in = append(in, v)
				} else {
					out = append(out, v)
				}
			}
			if len(in) == 0 || len(out) == 0 {
				continue
			}
			if d.R.Intn(6) == 0 {
				// an unbonded validator whose last delegator leaves is removed altogether
				for _, v := range out {
					var ds []PDeleg
					for _, x := range d.St.Delegs {
						if x.V == v.V {
							ds = append(ds, x)
						}
					}
					if v.Status == 1 && len(ds) == 1 {
						if d.R.Intn(2) == 0 {
							return Event{Kind: "Redelegate", Creator: ds[0].D, Val: v.V, Val2: in[0].V, Amount: ds[0].Shares}
						}
						return Event{Kind: "Undelegate", Creator: ds[0].D, Val: v.V, Amount: ds[0].Shares}
					}
				}
			}
			weakest := in[0]
			for _, v := range in {
				if v.Tokens/1000000 <= weakest.Tokens/1000000 {
					weakest = v // (equal power: the higher address is the one that goes)
				}
			}
			cand := out[d.R.Intn(len(out))]
			if d.R.Intn(3) == 0 {
				// somebody withdraws from the weakest active validator until it has less power than cand
				for _, x := range d.St.Delegs {
					need := weakest.Tokens - (cand.Tokens/1000000)*1000000 + int64(d.R.Intn(2))
					if x.V == weakest.V && need > 0 && x.Shares >= need {
						return Event{Kind: "Undelegate", Creator: x.D, Val: x.V, Amount: need}
					}
				}
			}
			need := (weakest.Tokens/1000000+int64(d.R.Intn(2)))*1000000 - cand.Tokens
			if need <= 0 {
				need = 1000000
			}
			who := d.pick(append(append([]string{}, d.P.Nodes...), "a09", "a10", "a11", "a12", "a08"))
			return Event{Kind: "Delegate", Creator: who, Val: cand.V, Amount: need}
		case "SidBind":
			// one more account for a model-owning sid DID (submitted by an account already bound to it)
			sid := d.pick(d.sidNames())
			free := []string{}
			for _, a := range []string{"a05", "a06", "a11", "a12"} {
				bound := false
				for _, b := range d.St.Bindings {
					if b.Acc == a {
						bound = true
					}
				}
				if !bound {
					free = append(free, a)
				}
			}
			if len(free) == 0 {
				continue
			}
			return Event{Kind: "Binding", Creator: d.P.Sids[sid], Acc: d.pick(free), Did: sid}
		case "SidRotate":
			// key rotation: a new document; every bound account except the payment account is dropped
			sid := d.pick(d.sidNames())
			var rm []string
			for _, b := range d.St.Bindings {
				if b.Did == sid && b.Acc != d.P.Sids[sid] {
					rm = append(rm, b.Acc)
				}
			}
			if len(rm) == 0 {
				continue
			}
			return Event{Kind: "DidUpdate", Creator: d.P.Sids[sid], Did: sid, Tx: rm, Datas: []string{d.P.Sids[sid]}}
		case "SuperCycle":
			// state-directed walk around the role's requirements: a super node gives up capacity; a node that holds the
			// share but not the role adds a little capacity (or re-declares its status); otherwise a node stakes enough
			// with the validator it declares
			var supers []string
			for _, x := range d.St.Nodes {
				if x.Role == 1 {
					supers = append(supers, x.A)
				}
			}
			as := d.aspirants()
			switch {
			case len(supers) > 0 && d.R.Intn(2) == 0:
				return Event{Kind: "RemoveVstorage", Creator: d.pick(supers), Size: d.pickI(d.P.Caps)}
			case len(as) > 0:
				n := d.pick(as)
				if d.R.Intn(4) == 0 {
					return Event{Kind: "Reset", Creator: n, Status: 15, Val: "", Tx: d.P.HotKeys[n]}
				}
				return Event{Kind: "AddVstorage", Creator: n, Size: []int64{100000, 500000, 1000000}[d.R.Intn(3)]}
			default:
				n := d.pick(d.P.Nodes)
				// (a node that never pledged anything - no pledge record at all - takes its turns as well)
				for _, x := range d.St.Nodes {
					has := false
					for _, pl := range d.St.Pledges {
						if pl.A == x.A {
							has = true
						}
					}
					if !has && d.R.Intn(2) == 0 {
						n = x.A
					}
				}
				val := ""
				for _, x := range d.St.Nodes {
					if x.A == n {
						val = x.Val
					}
				}
				if val == "" {
					return Event{Kind: "Reset", Creator: n, Status: 15, Val: d.pick(d.vals()), Tx: d.P.HotKeys[n]}
				}
				amt := []int64{250000, 400000, 1000000}[d.R.Intn(3)]
				if d.R.Intn(2) == 0 {
					// boundary values: the stake that puts the node's share just under / exactly at / just over the threshold
					sn, sd := ratio(d.C.Cfg.ShareThreshold)
					var own, total int64
					for _, v := range d.St.Vals {
						if v.V == val {
							total = v.Shares
						}
					}
					for _, dl := range d.St.Delegs {
						if dl.D == n && dl.V == val {
							own = dl.Shares
						}
					}
					// (own+x)*sd = (total+x)*sn
					if x := (total*sn - own*sd) / (sd - sn); x > 10 {
						amt = x + []int64{-3, -1, 0, 1, 3}[d.R.Intn(5)]
					}
				}
				return Event{Kind: "Delegate", Creator: n, Val: val, Amount: amt}
			}
		case "StaleHook":
			// state-directed: a delegation that fails AFTER the first staking hook ran leaves its pre-modification shares in
			// the hooks' process-global; the next staking operation of the same delegator on ANOTHER validator (a first
			// delegation there: the first hook is not called again), or of somebody else on the same validator, must not
			// consume it. The follow-up stake is sized so that the node's share passes only if the stale value were subtracted.
			var own []PDeleg
			for _, x := range d.St.Delegs {
				if !isOperator(x.D) && d.St.Bal[x.D] < 20000000 {
					own = append(own, x)
				}
			}
			if len(own) == 0 {
				continue
			}
			// (three times out of four a delegator that is itself a storage node with the full service status: the one whose
			// role the follow-up decides)
			var full []PDeleg
			for _, x := range own {
				for _, n := range d.St.Nodes {
					if n.A == x.D && n.Status == 15 {
						full = append(full, x)
					}
				}
			}
			if len(full) > 0 && d.R.Intn(4) != 0 {
				own = full
			}
			x := own[d.R.Intn(len(own))]
			var others []PVal
			for _, v := range d.St.Vals {
				has := false
				for _, y := range d.St.Delegs {
					if y.D == x.D && y.V == v.V {
						has = true
					}
				}
				if v.V != x.V && !has {
					others = append(others, v)
				}
			}
			isNode := false
			for _, n := range d.St.Nodes {
				if n.A == x.D {
					isNode = true
				}
			}
			if len(others) == 0 || d.R.Intn(4) == 0 {
				d.do(Event{Kind: "Delegate", Creator: x.D, Val: x.V, Amount: 20000000}) // more than the balance
				if d.Stop != "" {
					continue
				}
				// somebody else moves stake on the same validator
				who := d.pick(append(append([]string{}, d.P.Nodes...), "a09", "a10"))
				return Event{Kind: "Delegate", Creator: who, Val: x.V, Amount: []int64{1000, 250000}[d.R.Intn(2)]}
			}
			vb := others[d.R.Intn(len(others))]
			if isNode {
				// the delegator is made a node that meets everything but the share on the validator it declares (vb: no stake
				// there yet), so that the follow-up is the operation that decides its role
				for _, pl := range d.St.Pledges {
					if pl.A == x.D && pl.Cap < d.C.Cfg.VstorThreshold {
						d.do(Event{Kind: "AddVstorage", Creator: x.D, Size: d.C.Cfg.VstorThreshold - pl.Cap})
					}
				}
				d.do(Event{Kind: "Reset", Creator: x.D, Status: 15, Val: vb.V, Tx: d.P.HotKeys[x.D]})
			}
			d.do(Event{Kind: "Delegate", Creator: x.D, Val: x.V, Amount: 20000000}) // more than the balance
			if d.Stop != "" {
				continue
			}
			sn, sd := ratio(d.C.Cfg.ShareThreshold)
			amt := x.Shares / 10
			if sd > 2*sn {
				lo := sn*(vb.Shares-x.Shares)/(sd-2*sn) + 1 // passes once (x.Shares - amt) is wrongly subtracted from vb's total
				hi := sn * vb.Shares / (sd - sn)            // at or above: passes anyway
				if lo < 1 {
					lo = 1
				}
				if lo < hi {
					amt = lo + int64(d.R.Intn(int(hi-lo)))/4
				}
			}
			if amt < 1 {
				amt = 1
			}
			return Event{Kind: "Delegate", Creator: x.D, Val: vb.V, Amount: amt}
		case "ResetSuper":
			n := d.pick(d.P.Nodes)
			st := []int64{15, 15, 15, 13, 7, 0}[d.R.Intn(6)]
			val := []string{"", "", "v1", "v2", "v1", "v2", "v9"}[d.R.Intn(7)] // v9: no such validator
			return Event{Kind: "Reset", Creator: n, Status: st, Val: val, Tx: d.P.HotKeys[n]}
		case "ReportFaults", "RecoverFaults":
			reporters := append(append([]string{}, d.C.Cfg.Fishmen...), d.P.Nodes...)
			reporters = append(reporters, "a12")
			creator := d.pick(reporters)
			if len(d.C.Cfg.Fishmen) > 0 && d.R.Intn(10) < 6 {
				creator = d.pick(d.C.Cfg.Fishmen)
			}
			var fs []FaultEv
			var accused string
			mk := func(sh PShard) (FaultEv, bool) {
				o := d.findOrder(sh.Order)
				if o == nil {
					return FaultEv{}, false
				}
				return FaultEv{Data: o.Data, Order: o.Id, Shard: sh.Id, Commit: "c99", Provider: sh.Sp}, true
			}
			if k == "RecoverFaults" && len(d.St.Faults) > 0 && d.R.Intn(5) != 0 {
				f := d.St.Faults[d.R.Intn(len(d.St.Faults))]
				accused = f.Provider
				fe := FaultEv{Data: f.Data, Order: f.Order, Shard: f.Shard, Commit: f.Commit, Provider: f.Provider}
				if o := d.findOrder(f.Order); o != nil {
					fe.Commit = o.Commit // recovery must name the order's commit
				}
				fs = append(fs, fe)
				if d.R.Intn(2) == 0 {
					creator = accused
				}
			} else if len(d.St.Shards) > 0 {
				sh := d.St.Shards[d.R.Intn(len(d.St.Shards))]
				var done []PShard
				for _, x := range d.St.Shards {
					if x.Status == 2 {
						done = append(done, x)
					}
				}
				if len(done) > 0 && d.R.Intn(5) != 0 {
					sh = done[d.R.Intn(len(done))]
				}
				// a shard that is only being handed over: its new provider holds nothing yet and cannot be at fault
				for _, x := range d.St.Shards {
					if x.Status == 4 && d.R.Intn(3) == 0 {
						sh = x
						break
					}
				}
				if fe, ok := mk(sh); ok {
					accused = sh.Sp
					switch d.R.Intn(16) {
					case 6, 7:
						// the data id of ANOTHER existing model with this order and shard
						for _, m := range d.St.Metas {
							if m.Data != fe.Data {
								fe.Data = m.Data
								break
							}
						}
					case 0:
						fe.Commit = "" // empty commit id
					case 1:
						if o := d.findOrder(fe.Order); o != nil {
							fe.Commit = o.Commit
						}
					case 2:
						fe.Shard += 1
					case 3:
						fe.Order += 1
					case 4:
						fe.Provider = d.pick(d.P.Nodes)
					case 5:
						fe.Data = "D9"
					}
					fs = append(fs, fe)
					if d.R.Intn(4) == 0 { // duplicate entry
						fs = append(fs, fe)
					}
				}
			}
			if accused == "" {
				accused = d.pick(d.P.Nodes)
			}
			if d.R.Intn(6) == 0 {
				accused = d.pick(d.P.Nodes)
			}
			if k == "RecoverFaults" && d.R.Intn(5) == 0 {
				// another storage node declares "its own" recovery - with entries that name the real accused
				other := d.pick(d.P.Nodes)
				creator, accused = other, other
			}
			return Event{Kind: k, Creator: creator, Provider: accused, Faults: fs}
		case "Drain":
			// a provider moves (nearly) all its money away: later pledges are taken as recorded debt
			n := d.pick(d.P.Nodes)
			bal := d.St.Bal[n]
			keep := int64(5 + d.R.Intn(8)) // enough for a first shard pledge, not for a renewal top-up
			if bal <= keep+1 {
				continue
			}
			return Event{Kind: "Send", Creator: n, Acc: "a12", Amount: bal - keep}
		case "Refill":
			n := d.pick(d.P.Nodes)
			return Event{Kind: "Send", Creator: "a12", Acc: n, Amount: int64(1 + d.R.Intn(30))}
		case "Ready":
			var cands []POrder
			for _, o := range d.St.Orders {
				if o.Status == 0 {
					cands = append(cands, o)
				}
			}
			if len(cands) == 0 {
				continue
			}
			o := cands[d.R.Intn(len(cands))]
			cr, pv := d.actFor(o.Provider)
			return Event{Kind: "Ready", Creator: cr, Provider: pv, Order: o.Id}
		case "CancelAny":
			if len(d.St.Orders) == 0 {
				continue
			}
			o := d.St.Orders[d.R.Intn(len(d.St.Orders))]
			att := d.pick(d.P.Nodes)
			cr, pv := d.actFor(att)
			return Event{Kind: "Cancel", Creator: cr, Provider: pv, Order: o.Id}
		case "Terminate":
			if len(d.St.Metas) == 0 {
				continue
			}
			m := d.St.Metas[d.R.Intn(len(d.St.Metas))]
			signer := m.Owner
			if len(m.Rw) > 0 && d.R.Intn(3) == 0 {
				signer = d.pick(m.Rw)
			}
			cr, pv := d.gatewayFor(d.R)
			return Event{Kind: "Terminate", Creator: cr, Provider: pv, Owner: signer, Signer: signer, Data: m.Data}
		case "Renew":
			if len(d.St.Metas) == 0 {
				continue
			}
			m := d.St.Metas[d.R.Intn(len(d.St.Metas))]
			cr, pv := d.gatewayFor(d.R)
			datas := []string{m.Data}
			multi := d.P.RenewMulti
			if multi == 0 {
				multi = 25
			}
			if d.R.Intn(100) < multi && len(d.St.Metas) > 1 {
				for _, m2 := range d.St.Metas {
					if m2.Data != m.Data && m2.Owner == m.Owner && d.R.Intn(3) != 0 {
						datas = append(datas, m2.Data)
					}
				}
			}
			dur := d.pickI(d.P.Durs)
			if d.R.Intn(100) < d.P.RenewLonger {
				// every longer term raises the collateral again (the top-up paths: balance, then recorded debt)
				longest := int64(0)
				for _, s := range d.St.Shards {
					for _, o := range m.Orders {
						if s.Order == o && s.Dur > longest {
							longest = s.Dur
						}
					}
					for _, rn := range s.Renew {
						for _, o := range m.Orders {
							if rn.Order == o && rn.Dur > longest {
								longest = rn.Dur
							}
						}
					}
				}
				if longest > 0 && longest <= 50000 {
					dur = 2 * longest
				}
			}
			// TLC's integers are 32 bit: the price of any renewal order (size x replica x term, in 10^-6 coins) stays below 2^31
			for _, dn := range datas {
				if mm := d.findMeta(dn); mm != nil {
					if o := d.findOrder(mm.Order); o != nil && o.Size*o.Replica > 0 {
						if lim := 2000000000 / (o.Size * o.Replica); dur > lim && lim >= 3600 {
							dur = lim
						}
					}
				}
			}
			return Event{Kind: "Renew", Creator: cr, Provider: pv, Owner: m.Owner, Signer: m.Owner, Datas: datas, Dur: dur, Timeout: d.pickI(d.P.Timeouts)}
		case "GranteeCycle":
			// state-directed walk through a grantee's life: the owner grants read-write; the grantee updates; the update's
			// shards are stored; the grantee (whose order is now the model's latest) asks for a renewal, a termination or
			// another update; the owner revokes. What a grantee may and may not do is decided at each of these points.
			if len(d.St.Metas) == 0 {
				continue
			}
			m := d.St.Metas[d.R.Intn(len(d.St.Metas))]
			cr, pv := d.gatewayFor(d.R)
			last := d.findOrder(m.Order)
			if len(m.Rw) == 0 && (last == nil || last.Owner == m.Owner) {
				var others []string
				for _, x := range d.ownerDids() {
					if x != m.Owner {
						others = append(others, x)
					}
				}
				if len(others) == 0 {
					continue
				}
				return Event{Kind: "Permission", Creator: cr, Provider: pv, Owner: m.Owner, Signer: m.Owner, Data: m.Data, Rw: []string{d.pick(others)}}
			}
			if last != nil && last.Owner != m.Owner {
				// the grantee's order is the latest: first get its shards stored
				for _, sh := range d.St.Shards {
					for _, id := range last.Shards {
						if sh.Id == id && (sh.Status == 0 || sh.Status == 4) {
							c2, p2 := d.actFor(sh.Sp)
							return Event{Kind: "Complete", Creator: c2, Provider: p2, Order: last.Id, Size: sh.Size}
						}
					}
				}
				g := last.Owner
				switch d.R.Intn(4) {
				case 0:
					return Event{Kind: "Permission", Creator: cr, Provider: pv, Owner: m.Owner, Signer: m.Owner, Data: m.Data} // the owner revokes
				case 1:
					return Event{Kind: "Terminate", Creator: cr, Provider: pv, Owner: g, Signer: g, Data: m.Data}
				default:
					return Event{Kind: "Renew", Creator: cr, Provider: pv, Owner: g, Signer: g, Datas: []string{m.Data}, Dur: d.pickI(d.P.Durs), Timeout: d.pickI(d.P.Timeouts)}
				}
			}
			if len(m.Rw) > 0 && m.Status == 4 {
				g := d.pick(m.Rw)
				d.nc++
				newc := fmt.Sprintf("c%d", d.nc)
				return Event{Kind: "Store", Creator: cr, Provider: pv, Gw: pv, Owner: g, Signer: g, Data: m.Data, Commit: m.Commit + "|" + newc, Op: 1,
					Dur: d.pickI(d.P.Durs), Replica: 1, Timeout: d.pickI(d.P.Timeouts), Size: d.pickI(d.P.Sizes), Alias: m.Alias}
			}
			continue
		case "RenewByLastUpdater":
			// a read-write grantee whose update is the model's latest order asks for the renewal himself
			var cands []PMeta
			for _, m := range d.St.Metas {
				if o := d.findOrder(m.Order); o != nil && o.Owner != m.Owner && m.Status == 4 {
					stored := true
					for _, sh := range d.St.Shards {
						for _, id := range o.Shards {
							if sh.Id == id && sh.Status != 2 {
								stored = false
							}
						}
					}
					if stored {
						cands = append(cands, m)
					}
				}
			}
			if len(cands) == 0 {
				continue
			}
			m := cands[d.R.Intn(len(cands))]
			g := d.findOrder(m.Order).Owner
			cr, pv := d.gatewayFor(d.R)
			return Event{Kind: "Renew", Creator: cr, Provider: pv, Owner: g, Signer: g, Datas: []string{m.Data}, Dur: d.pickI(d.P.Durs), Timeout: d.pickI(d.P.Timeouts)}
		case "Migrate":
			var cands []PShard
			for _, s := range d.St.Shards {
				if s.Status == 2 {
					cands = append(cands, s)
				}
			}
			if len(cands) == 0 {
				continue
			}
			s := cands[d.R.Intn(len(cands))]
			var data string
			if o := d.findOrder(s.Order); o != nil {
				data = o.Data
			} else {
				continue
			}
			cr, pv := d.actFor(s.Sp)
			return Event{Kind: "Migrate", Creator: cr, Provider: pv, Datas: []string{data}}
		case "Claim":
			n := d.pick(d.P.Nodes)
			return Event{Kind: "Claim", Creator: n}
		case "AddVstorage":
			n := d.pick(d.P.Nodes)
			if d.P.MaxUnits > 0 && d.St.Pool.Storage+2000000 > d.P.MaxUnits*1000000 {
				return Event{Kind: "RemoveVstorage", Creator: n, Size: d.pickI(d.P.Caps)}
			}
			if d.P.Staking && d.R.Intn(100) < 40 {
				// a node that holds stake with its declared validator but not the role: every capacity change of such a
				// node re-decides the role, also the ones that stay below (or cross) the capacity threshold by little
				if as := d.aspirants(); len(as) > 0 {
					return Event{Kind: "AddVstorage", Creator: d.pick(as), Size: []int64{100000, 500000, 1000000}[d.R.Intn(3)]}
				}
			}
			return Event{Kind: "AddVstorage", Creator: n, Size: d.pickI(d.P.Caps)}
		case "RemoveVstorage":
			n := d.pick(d.P.Nodes)
			if d.P.Staking && d.R.Intn(100) < 40 {
				// a super node giving up capacity: the role has to follow, and to stay away while capacity is short
				var supers []string
				for _, x := range d.St.Nodes {
					if x.Role == 1 {
						supers = append(supers, x.A)
					}
				}
				if len(supers) > 0 {
					n = d.pick(supers)
				}
			}
			return Event{Kind: "RemoveVstorage", Creator: n, Size: d.pickI(d.P.Caps)}
		case "Reset":
			n := d.pick(d.P.Nodes)
			st := []int64{0, 1, 13, 15, 12, 5}[d.R.Intn(6)]
			return Event{Kind: "Reset", Creator: n, Status: st, Tx: d.P.HotKeys[n]}
		case "Permission":
			if len(d.St.Metas) == 0 {
				continue
			}
			m := d.St.Metas[d.R.Intn(len(d.St.Metas))]
			cr, pv := d.gatewayFor(d.R)
			var rw, ro []string
			if d.R.Intn(2) == 0 {
				rw = []string{d.pick(d.ownerDids())}
			}
			if d.R.Intn(2) == 0 {
				ro = []string{d.pick(d.ownerDids())}
			}
			return Event{Kind: "Permission", Creator: cr, Provider: pv, Owner: m.Owner, Signer: m.Owner, Data: m.Data, Rw: rw, Ro: ro}
		}
	}
	return d.blocksEvent()
}

func (d *Driver) sidNames() []string {
	var out []string
	for k := range d.P.Sids {
		out = append(out, k)
	}
	sort.Strings(out)
	return out
}

// aspirants: nodes without the super role that hold (nearly) the required share of the validator they declare.
func (d *Driver) aspirants() []string {
	var out []string
	for _, n := range d.St.Nodes {
		if n.Role != 0 || n.Val == "" {
			continue
		}
		sn, sd := ratio(d.C.Cfg.ShareThreshold)
		total := int64(0)
		for _, v := range d.St.Vals {
			if v.V == n.Val {
				total = v.Shares
			}
		}
		for _, dl := range d.St.Delegs {
			// (within a tenth under the threshold counts too: the decisions right at the boundary)
			if dl.D == n.A && dl.V == n.Val && dl.Shares > 0 && dl.Shares*sd*11 >= total*sn*10 {
				out = append(out, n.A)
				break
			}
		}
	}
	return out
}

// allAccounts lists every named account (nodes, payment accounts, hot keys, strangers).
func (d *Driver) allAccounts() []string {
	var out []string
	for _, a := range d.C.Accs {
		out = append(out, a.Name)
	}
	return out
}

func (d *Driver) allKeyDids() []string {
	var out []string
	for _, x := range d.C.Dids {
		out = append(out, x.Name)
	}
	return out
}

func (d *Driver) allDids() []string {
	var out []string
	for _, x := range d.C.Dids {
		out = append(out, x.Name)
	}
	if len(d.P.Sids) > 0 {
		out = append(out, d.sidDocs()...)
	}
	return out
}

// Twist turns a well-formed event into an adversarial variant: another signer, an
// altered or missing signature, a mismatching owner field, a foreign creator or
// claimed provider, a crafted commit id. The real code decides what happens.
func (d *Driver) Twist(e Event) Event {
	signed := e.Kind == "Store" || e.Kind == "Terminate" || e.Kind == "Renew" || e.Kind == "Permission"
	if signed && len(d.P.Sids) > 0 && d.R.Intn(4) == 0 {
		// the header names the owner, the version-id names whatever document the signer holds the key of
		if docs := d.sidDocs(); len(docs) > 0 {
			e.Signer = d.pick(docs)
			e.SigMode = "kidspoof"
			return e
		}
	}
	for tries := 0; tries < 10; tries++ {
		switch d.R.Intn(10) {
		case 0: // signed by someone else, owner field untouched
			if signed {
				e.Signer = d.pick(d.allDids())
				return e
			}
		case 1: // a stranger's own, correctly signed request
			if signed {
				x := d.pick(d.allDids())
				e.Signer, e.Owner = x, x
				return e
			}
		case 2: // altered / missing / spoofed signature
			if signed {
				e.SigMode = []string{"stale", "none", "kidspoof"}[d.R.Intn(3)]
				if e.SigMode == "kidspoof" {
					e.Signer = d.pick(d.allDids())
				}
				return e
			}
		case 3: // someone else submits
			e.Creator = d.pick(d.allAccounts())
			return e
		case 4: // someone else submits claiming to act for his own node
			e.Creator = d.pick(d.allAccounts())
			e.Provider = d.pick(d.P.Nodes)
			return e
		case 5: // act through another node (or one of the addresses it declared), whatever gateway the request names
			x := d.pick(d.P.Nodes)
			e.Provider = x
			e.Creator = x
			if hk := d.P.HotKeys[x]; len(hk) > 0 && d.R.Intn(3) != 0 {
				e.Creator = d.pick(hk)
			}
			return e
		case 9: // claimed provider differs
			e.Provider = d.pick(d.P.Nodes)
			return e
		case 6: // crafted commit id
			if e.Kind == "Store" {
				newc := fmt.Sprintf("c%d", d.nc+1)
				d.nc++
				cur := ""
				if m := d.findMeta(e.Data); m != nil {
					cur = m.Commit
				}
				opts := []string{"|" + newc, newc, e.Data + "|" + newc, newc + "|" + e.Data, cur + "~|" + newc, "c999|" + newc, cur + "|" + newc + "|" + e.Data, cur + "|" + cur}
				e.Commit = opts[d.R.Intn(len(opts))]
				return e
			}
		case 7: // sponsored payment: payer did named explicitly
			if e.Kind == "Store" {
				e.PayDid = d.pick(d.allDids())
				if d.R.Intn(2) == 0 {
					e.Creator = d.P.PayAcc[e.PayDid]
				}
				return e
			}
		case 8: // odd numeric fields
			if e.Kind == "Store" {
				switch d.R.Intn(4) {
				case 0:
					e.Replica = 0
				case 1:
					e.Dur = 3599
				case 2:
					e.Size = 0
				case 3:
					e.Timeout = 0
				}
				return e
			}
			if e.Kind == "Renew" {
				e.Dur = []int64{3599, 0, 63072001}[d.R.Intn(3)] // below the minimum / above the maximum renewal term
				return e
			}
			if e.Kind == "Complete" {
				e.Size++
				return e
			}
		}
	}
	return e
}

// NextDid produces the next event of the DID-registry profile: bindings with valid, forged, stale and
// replayed proofs by arbitrary submitters, key rotations that drop / keep arbitrary accounts, payment-address
// updates of sid and key DIDs.
func (d *Driver) NextDid() Event {
	accs := d.allAccounts()[:8]
	sids := []string{"s1", "s2", "s3"}
	boundTo := func(did string) []string {
		var out []string
		for _, b := range d.St.Bindings {
			if b.Did == did {
				out = append(out, b.Acc)
			}
		}
		return out
	}
	for tries := 0; tries < 30; tries++ {
		switch x := d.R.Intn(100); {
		case x < 45:
			did := d.pick(sids)
			acc := d.pick(accs)
			creator := acc
			if d.R.Intn(4) == 0 {
				// an Ethereum account (eip155 proof); somebody with a cosmos account has to submit it
				acc = d.pick([]string{"e1", "e2", "e3"})
				creator = d.pick(accs)
			}
			if bs := cosmosOnly(boundTo(did)); len(bs) > 0 && d.R.Intn(4) != 0 {
				creator = d.pick(bs)
			} else if d.R.Intn(3) == 0 {
				creator = d.pick(accs)
			}
			e := Event{Kind: "Binding", Creator: creator, Acc: acc, Did: did, Amount: []int64{0, 0, 0, -100, -899, -900, -901, -5000, 100}[d.R.Intn(9)]}
			if d.R.Intn(6) == 0 {
				e.SigMode = []string{"wrongkey", "none", "replay", "replay", "short"}[d.R.Intn(5)]
			}
			return e
		case x < 70:
			did := d.pick(sids)
			bs := boundTo(did)
			if len(bs) == 0 {
				continue
			}
			var rm, keep []string
			for _, a := range bs {
				if d.R.Intn(3) == 0 {
					rm = append(rm, a)
				} else {
					keep = append(keep, a)
				}
			}
			if d.R.Intn(6) == 0 && len(keep) > 0 { // forget one account: not all handled
				keep = keep[1:]
			}
			creator := d.pick(accs)
			if cb := cosmosOnly(bs); len(cb) > 0 && d.R.Intn(5) != 0 {
				creator = d.pick(cb)
			}
			e := Event{Kind: "DidUpdate", Creator: creator, Did: did, Tx: rm, Datas: keep, Amount: []int64{0, 0, -901, -100}[d.R.Intn(4)]}
			if d.R.Intn(4) == 0 {
				// also name account dids that belong to ANOTHER did
				for _, b := range d.St.Bindings {
					if b.Did != did && d.R.Intn(2) == 0 {
						e.Ro = append(e.Ro, "ad_"+b.Acc+"_"+b.Did)
					}
				}
			}
			if d.R.Intn(5) == 0 {
				for _, sd := range d.St.Seeds {
					if sd.Did == did && len(sd.Accs) > 0 {
						e.Commit = sd.Accs[0] // replayed past seed
					}
				}
			}
			return e
		case x < 85:
			did := d.pick(sids)
			bs := boundTo(did)
			creator := d.pick(accs)
			acc := d.pick(accs)
			if len(bs) > 0 && d.R.Intn(4) != 0 {
				acc = d.pick(bs)
				if cb := cosmosOnly(bs); len(cb) > 0 {
					creator = d.pick(cb)
				}
			}
			return Event{Kind: "PayAddrSid", Creator: creator, Acc: acc, Did: did}
		case x < 95:
			did := d.pick(d.allDids())
			acc := d.pick(accs)
			creator := acc
			if d.R.Intn(4) == 0 {
				creator = d.pick(accs)
			}
			return Event{Kind: "PayAddr", Creator: creator, Acc: acc, Did: did}
		default:
			return Event{Kind: "Blocks", N: int64(1 + d.R.Intn(3))}
		}
	}
	return Event{Kind: "Blocks", N: 1}
}

// cosmosOnly drops the Ethereum accounts (they cannot submit transactions here).
func cosmosOnly(xs []string) []string {
	var out []string
	for _, x := range xs {
		if !isEthAcc(x) {
			out = append(out, x)
		}
	}
	return out
}

// Run performs setup and n random events.
func (d *Driver) Run(n int) {
	if d.P.Name == "did" {
		for i := 0; i < n && d.Stop == ""; i++ {
			d.do(d.NextDid())
		}
		return
	}
	d.Setup()
	if strings.HasPrefix(d.P.Name, "poor") {
		for _, nd := range d.P.Nodes {
			if bal := d.St.Bal[nd]; bal > 14 {
				d.do(Event{Kind: "Send", Creator: nd, Acc: "a12", Amount: bal - int64(6+d.R.Intn(8))})
			}
		}
	}
	for i := 0; i < n && d.Stop == ""; i++ {
		e := d.Next()
		if e.Kind != "Blocks" && d.R.Intn(100) < d.P.Adversarial {
			e = d.Twist(e)
		}
		d.do(e)
	}
	// drain: run the chain across every scheduled height that is still ahead (final expiries, last timeouts),
	// so that each history is also observed to its end
	for i := 0; i < 10 && d.Stop == "" && !d.P.ShortBlocks; i++ {
		sch := d.scheduled()
		if len(sch) == 0 {
			break
		}
		n := sch[0] - d.St.H + 1
		if n < 1 {
			n = 1
		}
		if n > 12000 {
			n = 12000
		}
		d.do(Event{Kind: "Blocks", N: n})
	}
	if d.Stop == "" {
		d.do(Event{Kind: "Blocks", N: 1})
	}
}
