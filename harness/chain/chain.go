// Package chain drives the real SAO application (app.New over a MemDB) at keeper
// level: messages go through the real MsgServiceRouter handlers inside a cache
// context (baseapp DeliverTx semantics), blocks run the real module blockers in
// app.go's order. Nothing of the consensus logic is re-implemented here.
package chain

import (
	"encoding/binary"
	"encoding/json"
	"fmt"
	"math/big"
	"os"
	"sort"
	"strings"
	"time"

	saodidkey "github.com/SaoNetwork/sao-did/key"
	"github.com/SaoNetwork/sao/app"
	modelmodule "github.com/SaoNetwork/sao/x/model"
	nodemodule "github.com/SaoNetwork/sao/x/node"
	nodetypes "github.com/SaoNetwork/sao/x/node/types"
	saomodule "github.com/SaoNetwork/sao/x/sao"
	codectypes "github.com/cosmos/cosmos-sdk/codec/types"
	cryptocodec "github.com/cosmos/cosmos-sdk/crypto/codec"
	"github.com/cosmos/cosmos-sdk/crypto/keys/ed25519"
	"github.com/cosmos/cosmos-sdk/crypto/keys/secp256k1"
	"github.com/cosmos/cosmos-sdk/simapp"
	"github.com/cosmos/cosmos-sdk/simapp/helpers"
	sdk "github.com/cosmos/cosmos-sdk/types"
	authtypes "github.com/cosmos/cosmos-sdk/x/auth/types"
	banktypes "github.com/cosmos/cosmos-sdk/x/bank/types"
	minttypes "github.com/cosmos/cosmos-sdk/x/mint/types"
	"github.com/cosmos/cosmos-sdk/x/staking"
	stakingtypes "github.com/cosmos/cosmos-sdk/x/staking/types"
	"github.com/ignite/cli/ignite/pkg/cosmoscmd"
	abci "github.com/tendermint/tendermint/abci/types"
	"github.com/tendermint/tendermint/libs/log"
	tmproto "github.com/tendermint/tendermint/proto/tendermint/types"
	tmtypes "github.com/tendermint/tendermint/types"
	dbm "github.com/tendermint/tm-db"
	"math/rand"
)

const (
	ChainID = "sao-verif"
	Denom   = "sao"
)

// Config is the world a trace runs in. It is echoed into the genesis record of
// every trace so the TLA+ side sees the same constants.
type Config struct {
	Accounts       int      `json:"accounts"`       // named accounts a01..aNN (address order)
	Dids           int      `json:"dids"`           // key DIDs d1..dK
	Validators     int      `json:"validators"`     // bonded validators v1..vM
	Balance        int64    `json:"balance"`        // initial coins per account
	ValTokens      int64    `json:"valTokens"`      // self-bonded tokens per validator
	MaxValidators  int      `json:"maxValidators"`  // staking param (0: the default, 100); validators beyond it start unbonded
	BlockReward    int64    `json:"blockReward"`    // node param
	Baseline       int64    `json:"baseline"`       // node param
	APY            string   `json:"apy"`            // node param
	HalvingPeriod  int64    `json:"halvingPeriod"`  // node param
	AdjustPeriod   int64    `json:"adjustPeriod"`   // node param
	VstorThreshold int64    `json:"vstorThreshold"` // node param (bytes)
	ShareThreshold string   `json:"shareThreshold"` // node param
	OfflineTrigger int64    `json:"offlineTrigger"` // node param
	MaxPenalty     uint64   `json:"maxPenalty"`
	PenaltyBase    uint64   `json:"penaltyBase"`
	Fishmen        []string `json:"fishmen"`   // account names
	Salt           int64    `json:"salt"`      // block seed salt (see Seed)
	SeedMode       string   `json:"seedMode"`  // "hash" (default) | "zero" | "small"
	WorldSeed      int64    `json:"worldSeed"` // key derivation
	// RewardBase: the pool's TotalReward at genesis (a decimal string: the counter is far beyond 32 bits near the
	// subsidy's halving points). "" = 0. The projection reports the counter relative to it.
	RewardBase string `json:"rewardBase"`
}

func DefaultConfig() Config {
	return Config{
		Accounts: 12, Dids: 4, Validators: 2, Balance: 10_000_000, ValTokens: 2_000_000,
		BlockReward: 0, Baseline: 0, APY: "0.5", HalvingPeriod: 32000000, AdjustPeriod: 2000,
		VstorThreshold: 3_000_000, ShareThreshold: "0.1", OfflineTrigger: 1000000000,
		MaxPenalty: 10000, PenaltyBase: 1, Salt: 17, SeedMode: "hash", WorldSeed: 1,
	}
}

type Account struct {
	Name string
	Priv *secp256k1.PrivKey
	Addr sdk.AccAddress
}

type DidP struct {
	Name     string
	Did      string
	Provider *saodidkey.Secp256k1Provider
}

type Validator struct {
	Name    string
	ValAddr sdk.ValAddress
	Owner   *Account // self delegator account (not one of the named a.. accounts)
}

type Chain struct {
	Cfg     Config
	App     *app.App
	Ctx     sdk.Context
	H       int64
	Accs    []*Account
	Dids    []*DidP
	Vals    []*Validator
	names   map[string]string // concrete -> name (addresses, dids, validators, data ids, commits)
	concr   map[string]string // name -> concrete
	ABCI    bool              // drive through the real ABCI calls (signed DeliverTx, EndBlock, Commit, BeginBlock of ALL modules)
	Halted  string            // non-empty once a blocker panicked/hung
	Timeout time.Duration
	encCfg  cosmoscmd.EncodingConfig
	sids    map[string]*sidInfo
}

func init() {
	cosmoscmd.SetPrefixes("sao")
}

// Seed returns the integer the block header's AppHash encodes at height h.
func (c *Chain) Seed(h int64) int64 {
	switch c.Cfg.SeedMode {
	case "zero":
		return 0
	case "small":
		return (h*7 + c.Cfg.Salt) % 10
	}
	return (h*7919 + c.Cfg.Salt*104729) % 1000003
}

func seedBytes(s int64) []byte {
	if s == 0 {
		return nil
	}
	return new(big.Int).SetInt64(s).Bytes()
}

func (c *Chain) header(h int64) tmproto.Header {
	return tmproto.Header{ChainID: ChainID, Height: h, AppHash: seedBytes(c.Seed(h)), Time: time.Unix(1700000000+h*5, 0).UTC()}
}

func newWorld(cfg Config) (*Chain, error) {
	if cfg.Fishmen == nil {
		cfg.Fishmen = []string{}
	}
	c := &Chain{Cfg: cfg, names: map[string]string{}, concr: map[string]string{}, Timeout: 10 * time.Second}
	// accounts: derive, sort by bech32 address, name in that order
	var accs []*Account
	for i := 0; i < cfg.Accounts; i++ {
		priv := secp256k1.GenPrivKeyFromSecret([]byte(fmt.Sprintf("acct-%d-%d", cfg.WorldSeed, i)))
		accs = append(accs, &Account{Priv: priv, Addr: sdk.AccAddress(priv.PubKey().Address())})
	}
	sort.Slice(accs, func(i, j int) bool { return accs[i].Addr.String() < accs[j].Addr.String() })
	for i, a := range accs {
		a.Name = fmt.Sprintf("a%02d", i+1)
		c.bind(a.Name, a.Addr.String())
	}
	c.Accs = accs
	for i := 0; i < cfg.Dids; i++ {
		p, err := saodidkey.NewSecp256k1Provider([]byte(fmt.Sprintf("did-%d-%d", cfg.WorldSeed, i)))
		if err != nil {
			return nil, err
		}
		jws, _ := p.CreateJWS([]byte("x"))
		kid, _ := jws.Signatures[0].GetKid()
		did := kid
		for j := 0; j < len(kid); j++ {
			if kid[j] == '#' {
				did = kid[:j]
				break
			}
		}
		d := &DidP{Name: fmt.Sprintf("d%d", i+1), Did: did, Provider: p}
		c.Dids = append(c.Dids, d)
		c.bind(d.Name, did)
	}
	// module accounts
	for _, m := range []string{"order", "market", "node", "did", stakingtypes.BondedPoolName, stakingtypes.NotBondedPoolName, authtypes.FeeCollectorName, "distribution", "mint", "gov"} {
		c.bind("m_"+m, authtypes.NewModuleAddress(m).String())
	}

	// validators are named in the byte order of their operator addresses: the order in which x/staking iterates a
	// delegator's delegations (the first qualifying validator wins in CheckNodeShare)
	var owners []*Account
	for i := 0; i < cfg.Validators; i++ {
		o := &Account{Priv: secp256k1.GenPrivKeyFromSecret([]byte(fmt.Sprintf("valowner-%d-%d", cfg.WorldSeed, i)))}
		o.Addr = sdk.AccAddress(o.Priv.PubKey().Address())
		owners = append(owners, o)
	}
	sort.Slice(owners, func(i, j int) bool { return string(owners[i].Addr) < string(owners[j].Addr) })
	for i, owner := range owners {
		owner.Name = fmt.Sprintf("vo%d", i+1)
		c.bind(owner.Name, owner.Addr.String())
		valAddr := sdk.ValAddress(owner.Addr)
		vv := &Validator{Name: fmt.Sprintf("v%d", i+1), ValAddr: valAddr, Owner: owner}
		c.Vals = append(c.Vals, vv)
		c.bind(vv.Name, valAddr.String())
	}
	// symbolic data / commit ids are bound up front so that every process names them alike
	for i := 1; i <= 12; i++ {
		c.dataConcrete(fmt.Sprintf("D%d", i))
	}
	for i := 1; i <= 60; i++ {
		c.dataConcrete(fmt.Sprintf("c%d", i))
	}
	c.encCfg = cosmoscmd.MakeEncodingConfig(app.ModuleBasics)
	return c, nil
}

// genesisState builds the genesis JSON of the world (one coherent denom, bonded validators).
func (c *Chain) genesisState() ([]byte, error) {
	cfg := c.Cfg
	enc := c.encCfg
	accs := c.Accs
	gs := app.NewDefaultGenesisState(enc.Marshaler)
	// auth + bank
	var genAccs []authtypes.GenesisAccount
	var balances []banktypes.Balance
	total := sdk.NewCoins()
	for _, acc := range accs {
		genAccs = append(genAccs, authtypes.NewBaseAccount(acc.Addr, acc.Priv.PubKey(), 0, 0))
		coins := sdk.NewCoins(sdk.NewInt64Coin(Denom, cfg.Balance))
		balances = append(balances, banktypes.Balance{Address: acc.Addr.String(), Coins: coins})
		total = total.Add(coins...)
	}
	// validators
	var validators []stakingtypes.Validator
	var delegations []stakingtypes.Delegation
	var tmVals []*tmtypes.Validator
	bonded, notBonded := sdk.ZeroInt(), sdk.ZeroInt()
	for i := 0; i < cfg.Validators; i++ {
		owner := c.Vals[i].Owner
		cons := ed25519.GenPrivKeyFromSecret([]byte(fmt.Sprintf("valcons-%d-%d", cfg.WorldSeed, i)))
		pkAny, err := codectypes.NewAnyWithValue(cons.PubKey())
		if err != nil {
			return nil, err
		}
		valAddr := sdk.ValAddress(owner.Addr)
		tokens := sdk.NewInt(cfg.ValTokens)
		status := stakingtypes.Bonded
		if cfg.MaxValidators > 0 && i >= cfg.MaxValidators {
			// outside the active set (all have the same power: the lower operator addresses are in)
			status = stakingtypes.Unbonded
		}
		v := stakingtypes.Validator{
			OperatorAddress: valAddr.String(), ConsensusPubkey: pkAny, Status: status,
			Tokens: tokens, DelegatorShares: sdk.NewDecFromInt(tokens), Description: stakingtypes.Description{Moniker: fmt.Sprintf("v%d", i+1)},
			UnbondingTime: time.Unix(0, 0).UTC(), Commission: stakingtypes.NewCommission(sdk.ZeroDec(), sdk.ZeroDec(), sdk.ZeroDec()),
			MinSelfDelegation: sdk.ZeroInt(),
		}
		validators = append(validators, v)
		delegations = append(delegations, stakingtypes.NewDelegation(owner.Addr, valAddr, sdk.NewDecFromInt(tokens)))
		genAccs = append(genAccs, authtypes.NewBaseAccount(owner.Addr, owner.Priv.PubKey(), 0, 0))
		if status != stakingtypes.Bonded {
			notBonded = notBonded.Add(tokens)
			continue
		}
		bonded = bonded.Add(tokens)
		tmpk, err := cryptocodec.ToTmPubKeyInterface(cons.PubKey())
		if err != nil {
			return nil, err
		}
		tmVals = append(tmVals, tmtypes.NewValidator(tmpk, cfg.ValTokens/1_000_000))
	}
	if cfg.Validators > 0 {
		balances = append(balances, banktypes.Balance{Address: authtypes.NewModuleAddress(stakingtypes.BondedPoolName).String(), Coins: sdk.NewCoins(sdk.NewCoin(Denom, bonded))})
		total = total.Add(sdk.NewCoin(Denom, bonded))
	}
	if notBonded.IsPositive() {
		balances = append(balances, banktypes.Balance{Address: authtypes.NewModuleAddress(stakingtypes.NotBondedPoolName).String(), Coins: sdk.NewCoins(sdk.NewCoin(Denom, notBonded))})
		total = total.Add(sdk.NewCoin(Denom, notBonded))
	}
	gs[authtypes.ModuleName] = enc.Marshaler.MustMarshalJSON(authtypes.NewGenesisState(authtypes.DefaultParams(), genAccs))
	sp := stakingtypes.DefaultParams()
	sp.BondDenom = Denom
	if cfg.MaxValidators > 0 {
		sp.MaxValidators = uint32(cfg.MaxValidators)
	}
	gs[stakingtypes.ModuleName] = enc.Marshaler.MustMarshalJSON(stakingtypes.NewGenesisState(sp, validators, delegations))
	gs[banktypes.ModuleName] = enc.Marshaler.MustMarshalJSON(banktypes.NewGenesisState(banktypes.DefaultGenesisState().Params, balances, total, []banktypes.Metadata{}))
	// x/mint: no inflation, so that in ABCI mode the supply only moves by the storage reward (x/mint is not a storage module)
	mg := minttypes.DefaultGenesisState()
	mg.Minter.Inflation = sdk.ZeroDec()
	mg.Minter.AnnualProvisions = sdk.ZeroDec()
	mg.Params.MintDenom = Denom
	mg.Params.InflationMax = sdk.ZeroDec()
	mg.Params.InflationMin = sdk.ZeroDec()
	mg.Params.InflationRateChange = sdk.ZeroDec()
	gs[minttypes.ModuleName] = enc.Marshaler.MustMarshalJSON(mg)
	// node genesis: one coherent denom
	ng := nodetypes.DefaultGenesis()
	ng.Pool.TotalPledged = sdk.NewInt64Coin(Denom, 0)
	ng.Pool.AccPledgePerByte = sdk.NewInt64DecCoin(Denom, 0)
	if cfg.RewardBase != "" {
		base, ok := sdk.NewIntFromString(cfg.RewardBase)
		if !ok {
			return nil, fmt.Errorf("bad rewardBase %q", cfg.RewardBase)
		}
		ng.Pool.TotalReward = sdk.NewCoin(Denom, base)
	}
	ng.Params.BlockReward = sdk.NewInt64Coin(Denom, cfg.BlockReward)
	ng.Params.Baseline = sdk.NewInt64Coin(Denom, cfg.Baseline)
	ng.Params.AnnualPercentageYield = cfg.APY
	ng.Params.HalvingPeriod = cfg.HalvingPeriod
	ng.Params.AdjustmentPeriod = cfg.AdjustPeriod
	ng.Params.VstorageThreshold = cfg.VstorThreshold
	ng.Params.ShareThreshold = cfg.ShareThreshold
	ng.Params.OfflineTriggerHeight = cfg.OfflineTrigger
	ng.Params.MaxPenalty = cfg.MaxPenalty
	ng.Params.PenaltyBase = cfg.PenaltyBase
	fm := ""
	for _, f := range cfg.Fishmen {
		fm += c.Concrete(f) + ","
	}
	ng.Params.FishmenInfo = fm
	if err := ng.Validate(); err != nil {
		return nil, fmt.Errorf("node genesis invalid: %w", err)
	}
	gs[nodetypes.ModuleName] = enc.Marshaler.MustMarshalJSON(ng)

	return json.Marshal(gs)
}

func New(cfg Config) (*Chain, error) {
	c, err := newWorld(cfg)
	if err != nil {
		return nil, err
	}
	enc := c.encCfg
	home, err := os.MkdirTemp("", "saoharness-home")
	if err != nil {
		return nil, err
	}
	defer os.RemoveAll(home)
	a := app.New(log.NewNopLogger(), dbm.NewMemDB(), nil, true, map[int64]bool{}, home, 0, enc, simapp.EmptyAppOptions{}).(*app.App)
	c.App = a
	stateBytes, err := c.genesisState()
	if err != nil {
		return nil, err
	}
	valUpdates := []abci.ValidatorUpdate{}
	a.InitChain(abci.RequestInitChain{ChainId: ChainID, Validators: valUpdates, ConsensusParams: consensusParams(), AppStateBytes: stateBytes})
	c.H = 1
	hdr := c.header(1)
	a.BeginBlock(abci.RequestBeginBlock{Header: hdr})
	c.Ctx = a.BaseApp.NewContext(false, hdr)
	return c, nil
}

func (c *Chain) bind(name, concrete string) {
	c.names[concrete] = name
	c.concr[name] = concrete
}

// Bind registers a symbolic name for a concrete string (data ids, commit ids...).
func (c *Chain) Bind(name, concrete string) { c.bind(name, concrete) }

// Name maps a concrete value to its symbolic name; unknown values project to themselves.
func (c *Chain) Name(concrete string) string {
	if n, ok := c.names[concrete]; ok {
		return n
	}
	// sid documents and account dids created by the harness carry their symbolic name on chain, so a
	// process that did not create them (a restarted or re-initialised replica) names them alike
	if strings.HasPrefix(concrete, "did:key:acc-") {
		parts := strings.Split(strings.TrimPrefix(concrete, "did:key:acc-"), "-")
		if len(parts) == 2 {
			return "ad_" + parts[0] + "_" + parts[1]
		}
	}
	doc := strings.TrimPrefix(concrete, "did:sid:")
	if len(doc) == 64 && c.App != nil {
		if d, ok := c.App.DidKeeper.GetSidDocument(c.Ctx, doc); ok && len(d.Keys) > 0 {
			if n, ok := sidDocNameByKey(d.Keys[0].Value); ok {
				return n
			}
		}
	}
	return concrete
}

var sidKeyNames map[string]string

// sidDocNameByKey: the symbolic name of the harness-made sid document whose authentication key is v.
func sidDocNameByKey(v string) (string, bool) {
	if sidKeyNames == nil {
		sidKeyNames = map[string]string{}
		for i := 1; i <= 9; i++ {
			root := fmt.Sprintf("s%d", i)
			sidKeyNames[sidDocKeys(root)[0].Value] = root
			for j := 1; j <= 40; j++ {
				n := fmt.Sprintf("%s_v%d", root, j)
				sidKeyNames[sidDocKeys(n)[0].Value] = n
			}
		}
	}
	n, ok := sidKeyNames[v]
	return n, ok
}

// Concrete maps a symbolic name to its concrete value; unknown names map to themselves.
func (c *Chain) Concrete(name string) string {
	if isSidDoc(name) && sidOfDoc(name) == name && c.App != nil {
		// a sid did: its id on chain, or - not on chain - a stand-in that depends on the asking moment only
		return "did:sid:" + c.sid(name, uint64(c.blockTime())).DocId
	}
	if v, ok := c.concr[name]; ok {
		return v
	}
	// a process that did not create a sid did (a restarted or re-initialised replica) finds it on chain by its key
	if isSidDoc(name) && c.App != nil {
		if id := c.sidDocId(name); id != "" {
			if sidOfDoc(name) == name {
				return "did:sid:" + id
			}
			return id
		}
	}
	return name
}

func (c *Chain) Acc(name string) *Account {
	for _, a := range c.Accs {
		if a.Name == name {
			return a
		}
	}
	for _, v := range c.Vals {
		if v.Owner.Name == name {
			return v.Owner
		}
	}
	return nil
}

func (c *Chain) DidByName(name string) *DidP {
	for _, d := range c.Dids {
		if d.Name == name {
			return d
		}
	}
	return nil
}

// guarded runs f under recover and a watchdog. Result: "ok", "PANIC", "HANG".
func (c *Chain) guarded(f func()) (res string, panicMsg string) {
	done := make(chan string, 1)
	go func() {
		defer func() {
			if r := recover(); r != nil {
				done <- "PANIC:" + fmt.Sprint(r)
			}
		}()
		f()
		done <- "ok"
	}()
	select {
	case r := <-done:
		if r == "ok" {
			return "ok", ""
		}
		return "PANIC", r[6:]
	case <-time.After(c.Timeout):
		return "HANG", ""
	}
}

// TxResult is the outcome of one message.
type TxResult struct {
	Result string // ok | err | HANG
	Panic  bool   // err caused by a recovered panic (baseapp recovers these in DeliverTx)
	Err    string
	Code   uint32
	Space  string
	Resp   interface{}
}

// Deliver routes msg through the real handler in a cache context; state is written
// only on success (DeliverTx semantics: errors and panics roll the whole tx back).
func (c *Chain) Deliver(msg sdk.Msg) TxResult {
	if c.Halted != "" {
		return TxResult{Result: "err", Err: "chain halted"}
	}
	if c.ABCI {
		return c.deliverABCI(msg)
	}
	h := c.App.MsgServiceRouter().Handler(msg)
	if h == nil {
		return TxResult{Result: "err", Err: "no handler"}
	}
	var out TxResult
	cctx, write := c.Ctx.CacheContext()
	cctx = cctx.WithEventManager(sdk.NewEventManager()).WithGasMeter(sdk.NewGasMeter(50_000_000))
	var res *sdk.Result
	var err error
	r, pm := c.guarded(func() {
		if verr := msg.ValidateBasic(); verr != nil {
			err = verr
			return
		}
		res, err = h(cctx, msg)
	})
	switch r {
	case "HANG":
		c.Halted = "HANG in tx"
		return TxResult{Result: "HANG"}
	case "PANIC":
		return TxResult{Result: "err", Panic: true, Err: pm}
	}
	if err != nil {
		out = TxResult{Result: "err", Err: err.Error()}
		space, code, _ := sdkerrorsABCIInfo(err)
		out.Space, out.Code = space, code
		return out
	}
	write()
	out = TxResult{Result: "ok"}
	if res != nil {
		out.Resp = res
	}
	return out
}

// EndAndBegin finishes the current block (real end blockers in app.go's order) and
// begins the next one (real begin blockers of the custom modules). Returns "ok",
// "PANIC" or "HANG" plus the phase in which it happened.
func (c *Chain) maxVals() int {
	if c.Cfg.MaxValidators > 0 {
		return c.Cfg.MaxValidators
	}
	return 100
}

func (c *Chain) EndAndBegin(withStaking bool) (string, string, string) {
	withStaking = withStaking || c.Cfg.Validators > 0 // the validator set is brought up to date at every end-block
	if c.Halted != "" {
		return "PANIC", "halted", c.Halted
	}
	if c.ABCI {
		return c.endAndBeginABCI()
	}
	phase := ""
	r, pm := c.guarded(func() {
		if withStaking {
			phase = "end/staking"
			staking.EndBlocker(c.Ctx, c.App.StakingKeeper)
		}
		phase = "end/sao"
		saomodule.EndBlocker(c.Ctx, c.App.SaoKeeper)
		phase = "end/node"
		nodemodule.EndBlock(c.Ctx, c.App.NodeKeeper)
		phase = "end/model"
		modelmodule.EndBlocker(c.Ctx, c.App.ModelKeeper)
		phase = "begin/node"
		c.H++
		hdr := c.header(c.H)
		c.Ctx = c.Ctx.WithBlockHeight(c.H).WithBlockHeader(hdr).WithEventManager(sdk.NewEventManager())
		nodemodule.BeginBlocker(c.Ctx, c.App.NodeKeeper)
	})
	if r != "ok" {
		c.Halted = r + " in " + phase + ": " + pm
	}
	return r, phase, pm
}

func u64(b []byte) uint64 { return binary.BigEndian.Uint64(b) }

// ratio parses a decimal string such as "0.1" into numerator/denominator.
func ratio(dec string) (int64, int64) {
	num, den := int64(0), int64(1)
	seenDot := false
	for _, r := range dec {
		if r == '.' {
			seenDot = true
			continue
		}
		if r < '0' || r > '9' {
			continue
		}
		num = num*10 + int64(r-'0')
		if seenDot {
			den *= 10
		}
	}
	return num, den
}

// SpecConfig is the constant record the TLA+ specification reads (genesis line "cfg").
func (c *Chain) SpecConfig() map[string]interface{} {
	// every named account in bech32 address order (the KV order of stores keyed by address)
	type na struct{ n, a string }
	var all []na
	for _, a := range c.Accs {
		all = append(all, na{a.Name, a.Addr.String()})
	}
	for _, v := range c.Vals {
		all = append(all, na{v.Owner.Name, v.Owner.Addr.String()})
	}
	sort.Slice(all, func(i, j int) bool { return all[i].a < all[j].a })
	accs := []string{}
	for _, x := range all {
		accs = append(accs, x.n)
	}
	// the same accounts in raw address-byte order (the order x/staking iterates delegations in)
	sort.Slice(all, func(i, j int) bool {
		return string(sdk.MustAccAddressFromBech32(all[i].a)) < string(sdk.MustAccAddressFromBech32(all[j].a))
	})
	accsRaw := []string{}
	for _, x := range all {
		accsRaw = append(accsRaw, x.n)
	}
	datas := []string{}
	for i := 1; i <= 12; i++ {
		datas = append(datas, fmt.Sprintf("D%d", i))
	}
	dids := []string{}
	for _, d := range c.Dids {
		dids = append(dids, d.Name)
	}
	vals := []string{}
	for _, v := range c.Vals {
		vals = append(vals, v.Name)
	}
	sn, sd := ratio(c.Cfg.ShareThreshold)
	an, ad := ratio(c.Cfg.APY)
	age, toNext := rewardAgeOf(c.rewardBase())
	return map[string]interface{}{
		"accs": accs, "accsRaw": accsRaw, "datas": datas, "didOrder": dids, "vals": vals,
		"blockReward": c.Cfg.BlockReward, "baseline": c.Cfg.Baseline, "apyNum": an, "apyDen": ad,
		"halvingPeriod": c.Cfg.HalvingPeriod, "adjustPeriod": c.Cfg.AdjustPeriod,
		"vstorThreshold": c.Cfg.VstorThreshold, "shareNum": sn, "shareDen": sd,
		"offlineTrigger": c.Cfg.OfflineTrigger, "salt": c.Cfg.Salt, "seedMode": c.Cfg.SeedMode,
		"fishmen": c.Cfg.Fishmen, "maxPenalty": c.Cfg.MaxPenalty,
		"rewardAge": age, "toNextAge": toNext, "maxVals": c.maxVals(),
	}
}

func (c *Chain) rewardBase() *big.Int {
	b := new(big.Int)
	if c.Cfg.RewardBase != "" {
		b.SetString(c.Cfg.RewardBase, 10)
	}
	return b
}

// TotalRewardCap is x/node's TOTAL_REWARD (coins ever to be minted as block reward).
const TotalRewardCap = "400000000000000"

// rewardAgeOf computes, independently of the implementation, the subsidy's age for a pool that has minted `minted` coins:
// the number of halvings so far, i.e. the largest k with minted >= total * (1 - 2^-k); 256 once everything is minted.
// toNext is the number of coins still to be minted before the age increases (0 = too far for 32 bits, or exhausted).
func rewardAgeOf(minted *big.Int) (age int64, toNext int64) {
	total, _ := new(big.Int).SetString(TotalRewardCap, 10)
	if minted.Cmp(total) >= 0 {
		return 256, 0
	}
	remain := new(big.Int).Sub(total, minted)
	// age = largest k with remain <= total / 2^k  (in integers: floor(total/remain) >= 2^k)
	q := new(big.Int).Quo(total, remain)
	age = int64(q.BitLen() - 1)
	// next boundary: floor(total/remain') >= 2^(age+1)  <=>  remain' <= floor(total / 2^(age+1))
	bound := new(big.Int).Rsh(total, uint(age+1))
	d := new(big.Int).Sub(remain, bound)
	if d.IsInt64() && d.Int64() < 1<<30 {
		toNext = d.Int64()
	}
	return age, toNext
}

// ---------------------------------------------------------------------------
// ABCI mode: the same events, but through the real ABCI boundary of the application:
// signed transactions via DeliverTx (ante handler, gas, baseapp's own rollback and panic
// recovery) and EndBlock / Commit / BeginBlock of the whole module manager in app.go's order.
// The header's AppHash is the harness's synthetic seed (baseapp does not validate it), so the
// specification's RandomSP can follow.

func NewABCI(cfg Config) (*Chain, error) {
	c, err := New(cfg)
	if err != nil {
		return nil, err
	}
	c.ABCI = true
	return c, nil
}

func (c *Chain) signerOf(msg sdk.Msg) (acc *Account) {
	// a message whose creator is not an address has no signer (GetSigners panics): it cannot be put into a transaction
	defer func() {
		if recover() != nil {
			acc = nil
		}
	}()
	signers := msg.GetSigners()
	if len(signers) == 0 {
		return nil
	}
	return c.Acc(c.Name(signers[0].String()))
}

func (c *Chain) deliverABCI(msg sdk.Msg) TxResult {
	acc := c.signerOf(msg)
	if acc == nil {
		return TxResult{Result: "err", Err: "unknown signer"}
	}
	var num, seq uint64
	if a := c.App.AccountKeeper.GetAccount(c.Ctx, acc.Addr); a != nil {
		num, seq = a.GetAccountNumber(), a.GetSequence()
	}
	tx, err := helpers.GenSignedMockTx(rand.New(rand.NewSource(int64(seq)+7)), c.encCfg.TxConfig, []sdk.Msg{msg}, sdk.NewCoins(), 50_000_000, ChainID, []uint64{num}, []uint64{seq}, acc.Priv)
	if err != nil {
		return TxResult{Result: "err", Err: "sign: " + err.Error()}
	}
	bz, err := c.encCfg.TxConfig.TxEncoder()(tx)
	if err != nil {
		return TxResult{Result: "err", Err: "encode: " + err.Error()}
	}
	var rd abci.ResponseDeliverTx
	r, pm := c.guarded(func() { rd = c.App.DeliverTx(abci.RequestDeliverTx{Tx: bz}) })
	c.Ctx = c.App.BaseApp.NewContext(false, c.header(c.H))
	switch r {
	case "HANG":
		c.Halted = "HANG in tx"
		return TxResult{Result: "HANG"}
	case "PANIC":
		c.Halted = "PANIC escaped DeliverTx: " + pm
		return TxResult{Result: "PANIC", Err: pm}
	}
	if rd.Code != 0 {
		return TxResult{Result: "err", Err: rd.Log, Code: rd.Code, Space: rd.Codespace, Panic: strings.Contains(rd.Log, "panic")}
	}
	out := TxResult{Result: "ok"}
	var md sdk.TxMsgData
	if err := md.Unmarshal(rd.Data); err == nil && len(md.MsgResponses) > 0 {
		out.Resp = &sdk.Result{Data: md.MsgResponses[0].Value}
	}
	return out
}

func (c *Chain) endAndBeginABCI() (string, string, string) {
	phase := ""
	r, pm := c.guarded(func() {
		phase = "end"
		c.App.EndBlock(abci.RequestEndBlock{Height: c.H})
		phase = "commit"
		c.App.Commit()
		phase = "begin"
		c.H++
		hdr := c.header(c.H)
		c.App.BeginBlock(abci.RequestBeginBlock{Header: hdr})
		c.Ctx = c.App.BaseApp.NewContext(false, hdr)
	})
	if r != "ok" {
		c.Halted = r + " in " + phase + ": " + pm
	}
	return r, phase, pm
}

// consensusParams: simapp's defaults with an unlimited block gas (traces put many transactions into one block).
func consensusParams() *abci.ConsensusParams {
	cp := *simapp.DefaultConsensusParams
	blk := *cp.Block
	blk.MaxGas = -1
	cp.Block = &blk
	return &cp
}
