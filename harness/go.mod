module verifharness

go 1.19

require (
	github.com/SaoNetwork/sao v0.0.0
	github.com/SaoNetwork/sao-did v0.0.12
	github.com/cosmos/cosmos-sdk v0.46.6
	github.com/dvsekhvalnov/jose2go v1.5.0
	github.com/ethereum/go-ethereum v1.10.26
	github.com/ignite/cli v0.25.2
	github.com/multiformats/go-multibase v0.1.1
	github.com/tendermint/tendermint v0.34.23
	github.com/tendermint/tm-db v0.6.7
)

require (
	cloud.google.com/go v0.110.6 // indirect
	cloud.google.com/go/compute/metadata v0.2.3 // indirect
	cloud.google.com/go/iam v1.1.1 // indirect
	cloud.google.com/go/storage v1.30.1 // indirect
	cosmossdk.io/errors v1.0.0-beta.7 // indirect
	cosmossdk.io/math v1.0.0-beta.3 // indirect
	filippo.io/edwards25519 v1.0.0-rc.1 // indirect
	github.com/99designs/keyring v1.2.1 // indirect
	github.com/ChainSafe/go-schnorrkel v0.0.0-20200405005733-88cbf1b4c40d // indirect
	github.com/ProtonMail/go-crypto v0.0.0-20210428141323-04723f9f07d7 // indirect
	github.com/Workiva/go-datastructures v1.0.53 // indirect
	github.com/andrew-d/go-termutil v0.0.0-20150726205930-009166a695a2 // indirect
	github.com/armon/go-metrics v0.4.0 // indirect
	github.com/armon/go-socks5 v0.0.0-20160902184237-e75332964ef5 // indirect
	github.com/aws/aws-sdk-go v1.40.45 // indirect
	github.com/beorn7/perks v1.0.1 // indirect
	github.com/bgentry/go-netrc v0.0.0-20140422174119-9fd32a8b3d3d // indirect
	github.com/bgentry/speakeasy v0.1.0 // indirect
	github.com/blang/semver v3.5.1+incompatible // indirect
	github.com/btcsuite/btcd v0.22.1 // indirect
	github.com/buger/jsonparser v1.1.1 // indirect
	github.com/cenkalti/backoff v2.2.1+incompatible // indirect
	github.com/cenkalti/backoff/v4 v4.1.3 // indirect
	github.com/cespare/xxhash/v2 v2.2.0 // indirect
	github.com/chzyer/readline v0.0.0-20180603132655-2972be24d48e // indirect
	github.com/cockroachdb/apd/v2 v2.0.2 // indirect
	github.com/coinbase/rosetta-sdk-go v0.7.9 // indirect
	github.com/confio/ics23/go v0.7.0 // indirect
	github.com/containerd/containerd v1.6.8 // indirect
	github.com/cosmos/btcutil v1.0.4 // indirect
	github.com/cosmos/cosmos-proto v1.0.0-alpha7 // indirect
	github.com/cosmos/go-bip39 v1.0.0 // indirect
	github.com/cosmos/iavl v0.19.4 // indirect
	github.com/cosmos/ibc-go/v5 v5.1.0 // indirect
	github.com/creachadair/taskgroup v0.3.2 // indirect
	github.com/davecgh/go-spew v1.1.1 // indirect
	github.com/desertbit/timer v0.0.0-20180107155436-c41aec40b27f // indirect
	github.com/docker/docker v20.10.19+incompatible // indirect
	github.com/docker/go-units v0.5.0 // indirect
	github.com/emicklei/proto v1.11.0 // indirect
	github.com/emirpasic/gods v1.18.1 // indirect
	github.com/fatih/color v1.13.0 // indirect
	github.com/felixge/httpsnoop v1.0.1 // indirect
	github.com/fsnotify/fsnotify v1.5.4 // indirect
	github.com/ghodss/yaml v1.0.0 // indirect
	github.com/go-git/gcfg v1.5.0 // indirect
	github.com/go-git/go-billy/v5 v5.3.1 // indirect
	github.com/go-git/go-git/v5 v5.4.2 // indirect
	github.com/go-kit/kit v0.12.0 // indirect
	github.com/go-kit/log v0.2.1 // indirect
	github.com/go-logfmt/logfmt v0.5.1 // indirect
	github.com/goccy/go-yaml v1.9.4 // indirect
	github.com/godbus/dbus v0.0.0-20190726142602-4481cbc300e2 // indirect
	github.com/gogo/gateway v1.1.0 // indirect
	github.com/gogo/protobuf v1.3.3 // indirect
	github.com/golang/groupcache v0.0.0-20210331224755-41bb18bfe9da // indirect
	github.com/golang/protobuf v1.5.3 // indirect
	github.com/golang/snappy v0.0.4 // indirect
	github.com/google/btree v1.0.1 // indirect
	github.com/google/go-cmp v0.5.9 // indirect
	github.com/google/orderedcode v0.0.1 // indirect
	github.com/google/s2a-go v0.1.4 // indirect
	github.com/google/uuid v1.3.0 // indirect
	github.com/googleapis/enterprise-certificate-proxy v0.2.3 // indirect
	github.com/googleapis/gax-go/v2 v2.11.0 // indirect
	github.com/gorilla/handlers v1.5.1 // indirect
	github.com/gorilla/mux v1.8.0 // indirect
	github.com/gorilla/websocket v1.5.0 // indirect
	github.com/grpc-ecosystem/go-grpc-middleware v1.3.0 // indirect
	github.com/grpc-ecosystem/grpc-gateway v1.16.0 // indirect
	github.com/gsterjov/go-libsecret v0.0.0-20161001094733-a6f4afe4910c // indirect
	github.com/gtank/merlin v0.1.1 // indirect
	github.com/gtank/ristretto255 v0.1.2 // indirect
	github.com/hashicorp/go-cleanhttp v0.5.2 // indirect
	github.com/hashicorp/go-getter v1.6.1 // indirect
	github.com/hashicorp/go-immutable-radix v1.3.1 // indirect
	github.com/hashicorp/go-safetemp v1.0.0 // indirect
	github.com/hashicorp/go-version v1.6.0 // indirect
	github.com/hashicorp/golang-lru v0.5.5-0.20210104140557-80c98217689d // indirect
	github.com/hashicorp/hcl v1.0.0 // indirect
	github.com/hdevalence/ed25519consensus v0.0.0-20220222234857-c00d1f31bab3 // indirect
	github.com/iancoleman/strcase v0.2.0 // indirect
	github.com/imdario/mergo v0.3.13 // indirect
	github.com/improbable-eng/grpc-web v0.15.0 // indirect
	github.com/ipfs/go-block-format v0.0.2 // indirect
	github.com/ipfs/go-cid v0.3.2 // indirect
	github.com/ipfs/go-ipfs-util v0.0.1 // indirect
	github.com/ipfs/go-ipld-cbor v0.0.6 // indirect
	github.com/ipfs/go-ipld-format v0.0.1 // indirect
	github.com/jbenet/go-context v0.0.0-20150711004518-d14ea06fba99 // indirect
	github.com/jmespath/go-jmespath v0.4.0 // indirect
	github.com/jpillora/ansi v1.0.2 // indirect
	github.com/jpillora/backoff v1.0.0 // indirect
	github.com/jpillora/chisel v1.7.7 // indirect
	github.com/jpillora/requestlog v1.0.0 // indirect
	github.com/jpillora/sizestr v1.0.0 // indirect
	github.com/kevinburke/ssh_config v1.2.0 // indirect
	github.com/klauspost/compress v1.15.11 // indirect
	github.com/klauspost/cpuid/v2 v2.1.0 // indirect
	github.com/lib/pq v1.10.6 // indirect
	github.com/libp2p/go-buffer-pool v0.1.0 // indirect
	github.com/magiconair/properties v1.8.6 // indirect
	github.com/manifoldco/promptui v0.9.0 // indirect
	github.com/mattn/go-colorable v0.1.13 // indirect
	github.com/mattn/go-isatty v0.0.16 // indirect
	github.com/mattn/go-zglob v0.0.3 // indirect
	github.com/matttproud/golang_protobuf_extensions v1.0.2-0.20181231171920-c182affec369 // indirect
	github.com/mimoo/StrobeGo v0.0.0-20210601165009-122bf33a46e0 // indirect
	github.com/minio/highwayhash v1.0.2 // indirect
	github.com/minio/sha256-simd v1.0.0 // indirect
	github.com/mitchellh/go-homedir v1.1.0 // indirect
	github.com/mitchellh/go-testing-interface v1.0.0 // indirect
	github.com/mitchellh/mapstructure v1.5.0 // indirect
	github.com/moby/sys/mount v0.3.1 // indirect
	github.com/moby/sys/mountinfo v0.6.0 // indirect
	github.com/mr-tron/base58 v1.2.0 // indirect
	github.com/mtibben/percent v0.2.1 // indirect
	github.com/multiformats/go-base32 v0.0.4 // indirect
	github.com/multiformats/go-base36 v0.1.0 // indirect
	github.com/multiformats/go-multiaddr v0.6.0 // indirect
	github.com/multiformats/go-multicodec v0.7.0 // indirect
	github.com/multiformats/go-multihash v0.2.1 // indirect
	github.com/multiformats/go-varint v0.0.6 // indirect
	github.com/opencontainers/go-digest v1.0.0 // indirect
	github.com/opencontainers/image-spec v1.1.0-rc2 // indirect
	github.com/opencontainers/runc v1.1.3 // indirect
	github.com/otiai10/copy v1.6.0 // indirect
	github.com/pelletier/go-toml v1.9.5 // indirect
	github.com/pelletier/go-toml/v2 v2.0.5 // indirect
	github.com/pkg/errors v0.9.1 // indirect
	github.com/pmezard/go-difflib v1.0.0 // indirect
	github.com/polydawn/refmt v0.0.0-20201211092308-30ac6d18308e // indirect
	github.com/prometheus/client_golang v1.12.2 // indirect
	github.com/prometheus/client_model v0.2.0 // indirect
	github.com/prometheus/common v0.37.0 // indirect
	github.com/prometheus/procfs v0.8.0 // indirect
	github.com/radovskyb/watcher v1.0.7 // indirect
	github.com/rakyll/statik v0.1.7 // indirect
	github.com/rcrowley/go-metrics v0.0.0-20201227073835-cf1acfcdf475 // indirect
	github.com/regen-network/cosmos-proto v0.3.1 // indirect
	github.com/rs/cors v1.8.2 // indirect
	github.com/rs/zerolog v1.27.0 // indirect
	github.com/satori/go.uuid v1.2.0 // indirect
	github.com/sergi/go-diff v1.2.0 // indirect
	github.com/sirupsen/logrus v1.9.0 // indirect
	github.com/spaolacci/murmur3 v1.1.0 // indirect
	github.com/spf13/afero v1.8.2 // indirect
	github.com/spf13/cast v1.5.0 // indirect
	github.com/spf13/cobra v1.6.0 // indirect
	github.com/spf13/jwalterweatherman v1.1.0 // indirect
	github.com/spf13/pflag v1.0.5 // indirect
	github.com/spf13/viper v1.13.0 // indirect
	github.com/stretchr/testify v1.8.1 // indirect
	github.com/subosito/gotenv v1.4.1 // indirect
	github.com/syndtr/goleveldb v1.0.1-0.20210819022825-2ae1ddf74ef7 // indirect
	github.com/takuoki/gocase v1.0.0 // indirect
	github.com/tendermint/btcd v0.1.1 // indirect
	github.com/tendermint/crypto v0.0.0-20191022145703-50d29ede1e15 // indirect
	github.com/tendermint/go-amino v0.16.0 // indirect
	github.com/tendermint/spn v0.2.1-0.20220921200247-8bafad876bdd // indirect
	github.com/thanhpk/randstr v1.0.4 // indirect
	github.com/tomasen/realip v0.0.0-20180522021738-f0c99a92ddce // indirect
	github.com/ulikunitz/xz v0.5.8 // indirect
	github.com/whyrusleeping/cbor-gen v0.0.0-20200123233031-1cdf64d27158 // indirect
	github.com/xanzy/ssh-agent v0.3.2 // indirect
	go.etcd.io/bbolt v1.3.6 // indirect
	go.opencensus.io v0.24.0 // indirect
	golang.org/x/crypto v0.13.0 // indirect
	golang.org/x/exp v0.0.0-20220722155223-a9213eeb770e // indirect
	golang.org/x/mod v0.8.0 // indirect
	golang.org/x/net v0.15.0 // indirect
	golang.org/x/oauth2 v0.12.0 // indirect
	golang.org/x/sync v0.3.0 // indirect
	golang.org/x/sys v0.12.0 // indirect
	golang.org/x/term v0.12.0 // indirect
	golang.org/x/text v0.13.0 // indirect
	golang.org/x/xerrors v0.0.0-20220907171357-04be3eba64a2 // indirect
	google.golang.org/api v0.126.0 // indirect
	google.golang.org/appengine v1.6.7 // indirect
	google.golang.org/genproto v0.0.0-20230803162519-f966b187b2e5 // indirect
	google.golang.org/genproto/googleapis/api v0.0.0-20230822172742-b8732ec3820d // indirect
	google.golang.org/genproto/googleapis/rpc v0.0.0-20230822172742-b8732ec3820d // indirect
	google.golang.org/grpc v1.58.0 // indirect
	google.golang.org/protobuf v1.31.0 // indirect
	gopkg.in/ini.v1 v1.67.0 // indirect
	gopkg.in/warnings.v0 v0.1.2 // indirect
	gopkg.in/yaml.v2 v2.4.0 // indirect
	gopkg.in/yaml.v3 v3.0.1 // indirect
	lukechampine.com/blake3 v1.1.7 // indirect
	nhooyr.io/websocket v1.8.6 // indirect
	sigs.k8s.io/yaml v1.3.0 // indirect
)

replace github.com/SaoNetwork/sao => /repo

replace github.com/gogo/protobuf => github.com/regen-network/protobuf v1.3.3-alpha.regen.1

replace github.com/cosmos/cosmos-sdk => github.com/cosmos/cosmos-sdk v0.46.2

replace github.com/cosmos/ibc-go/v5 => github.com/cosmos/ibc-go/v5 v5.0.0-rc1

replace github.com/ignite/cli => github.com/ignite/cli v0.25.1
