// saoharness: drives the real sao-consensus application and records ndjson traces
// for validation against the TLA+ specification (see /verif/DESIGN.md).
package main

import (
	"encoding/json"
	"flag"
	"fmt"
	"math/rand"
	"os"
	"path/filepath"
	"time"

	"verifharness/chain"
)

func die(f string, a ...interface{}) {
	fmt.Fprintf(os.Stderr, f+"\n", a...)
	os.Exit(2)
}

func main() {
	if len(os.Args) < 2 {
		die("usage: saoharness <drive|replay|version> ...")
	}
	switch os.Args[1] {
	case "drive":
		cmdDrive(os.Args[2:])
	case "replay":
		cmdReplay(os.Args[2:])
	case "version":
		fmt.Println("saoharness 1")
	default:
		die("unknown command %s", os.Args[1])
	}
}

func payProfile() chain.Profile {
	return chain.Profile{
		Name:     "pay",
		Nodes:    []string{"a01", "a02", "a03", "a04", "a05"},
		Gateways: []string{"a01"},
		HotKeys:  map[string][]string{"a01": {"a11"}, "a02": {"a12"}},
		PayAcc:   map[string]string{"d1": "a07", "d2": "a08", "d3": "a09"},
		Weights: map[string]int{"Blocks": 30, "StoreNew": 10, "StoreUpdate": 8, "Complete": 30, "Cancel": 3, "Terminate": 4,
			"Renew": 6, "Migrate": 4, "Claim": 5, "AddVstorage": 2, "RemoveVstorage": 2, "Permission": 2},
		Sizes:    []int64{1, 1000, 5000, 10000},
		Durs:     []int64{3600, 3601, 7200},
		Timeouts: []int64{5, 20, 1800, 3600},
		Caps:     []int64{1000000, 2000000, 999999, 1000001, 20000},
		MaxData:  4,
	}
}

// lifeProfile: few data models, deep per-model histories (renewals in a row, migrations,
// hand-overs, expiry boundaries).
func lifeProfile() chain.Profile {
	p := payProfile()
	p.Name = "life"
	p.MaxData = 2
	p.Weights = map[string]int{"Blocks": 22, "StoreNew": 6, "StoreUpdate": 5, "Complete": 34, "Cancel": 1, "Terminate": 2,
		"Renew": 12, "Migrate": 12, "Claim": 4, "AddVstorage": 1, "RemoveVstorage": 1}
	p.Sizes = []int64{1000, 5000, 10000}
	p.Timeouts = []int64{20, 1800, 3600}
	return p
}

// authProfile: the same world with a third of the requests twisted adversarially; one node
// (a05) declares other people's addresses as its own transaction addresses.
func authProfile() chain.Profile {
	p := payProfile()
	p.Name = "auth"
	p.HotKeys = map[string][]string{"a01": {"a11"}, "a02": {"a12"}, "a05": {"a11", "a01", "a07", "a12"}}
	p.Weights = map[string]int{"Blocks": 14, "StoreNew": 10, "StoreUpdate": 16, "Complete": 24, "Cancel": 5, "CancelAny": 6, "Terminate": 6,
		"Renew": 6, "Migrate": 3, "Claim": 4, "AddVstorage": 2, "RemoveVstorage": 2, "Permission": 8, "Reset": 1, "Ready": 2}
	p.Adversarial = 35
	p.Timeouts = []int64{20, 600, 3600}
	return p
}

func profileByName(n string) chain.Profile {
	switch n {
	case "pay":
		return payProfile()
	case "life":
		return lifeProfile()
	case "auth":
		return authProfile()
	}
	die("unknown profile %s", n)
	return chain.Profile{}
}

func cmdDrive(args []string) {
	fs := flag.NewFlagSet("drive", flag.ExitOnError)
	seed := fs.Int64("seed", 1, "random seed")
	n := fs.Int("n", 60, "events per trace")
	traces := fs.Int("traces", 1, "number of traces")
	outDir := fs.String("out", ".", "output directory")
	prof := fs.String("profile", "pay", "driver profile")
	cfgJSON := fs.String("cfg", "", "config overrides (JSON)")
	fs.Parse(args)
	os.MkdirAll(*outDir, 0o755)
	start := time.Now()
	halted := 0
	for i := 0; i < *traces; i++ {
		cfg := chain.DefaultConfig()
		if *cfgJSON != "" {
			if err := json.Unmarshal([]byte(*cfgJSON), &cfg); err != nil {
				die("bad cfg: %v", err)
			}
		}
		s := *seed*1000 + int64(i)
		cfg.Salt = s%997 + 1
		c, err := chain.New(cfg)
		if err != nil {
			die("chain.New: %v", err)
		}
		path := filepath.Join(*outDir, fmt.Sprintf("%s-%d-%03d.ndjson", *prof, *seed, i))
		tw, err := chain.NewTraceWriter(path)
		if err != nil {
			die("%v", err)
		}
		tw.Genesis(c)
		d := &chain.Driver{C: c, T: tw, R: rand.New(rand.NewSource(s)), P: profileByName(*prof)}
		d.Run(*n)
		tw.Close()
		if d.Stop != "" {
			halted++
			if d.Stop == "HANG" {
				// a hung goroutine cannot be cancelled; finish this process
				fmt.Printf("STOP trace=%s reason=HANG\n", path)
				fmt.Printf("DONE traces=%d halted=%d wall=%.1fs\n", i+1, halted, time.Since(start).Seconds())
				os.Exit(3)
			}
		}
	}
	fmt.Printf("DONE traces=%d halted=%d wall=%.1fs\n", *traces, halted, time.Since(start).Seconds())
}

func cmdReplay(args []string) {
	die("replay: not built yet")
}
