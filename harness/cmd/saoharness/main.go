// saoharness: drives the real sao-consensus application and records ndjson traces
// for validation against the TLA+ specification (see /verif/DESIGN.md).
package main

import (
	"encoding/json"
	"flag"
	"fmt"
	"math/rand"
	"os"
	"path/filepath"
	"time"

	"verifharness/chain"
)

func die(f string, a ...interface{}) {
	fmt.Fprintf(os.Stderr, f+"\n", a...)
	os.Exit(2)
}

func main() {
	if len(os.Args) < 2 {
		die("usage: saoharness <drive|replay|version> ...")
	}
	switch os.Args[1] {
	case "drive":
		cmdDrive(os.Args[2:])
	case "replay":
		cmdReplay(os.Args[2:])
	case "genesis":
		cmdGenesis(os.Args[2:])
	case "selection":
		cmdSelection(os.Args[2:])
	case "replica":
		cmdReplica(os.Args[2:])
	case "version":
		fmt.Println("saoharness 1")
	default:
		die("unknown command %s", os.Args[1])
	}
}

func payProfile() chain.Profile {
	return chain.Profile{
		Name:     "pay",
		Nodes:    []string{"a01", "a02", "a03", "a04", "a05"},
		Gateways: []string{"a01"},
		HotKeys:  map[string][]string{"a01": {"a11"}, "a02": {"a12"}},
		PayAcc:   map[string]string{"d1": "a07", "d2": "a08", "d3": "a09"},
		Weights: map[string]int{"Blocks": 30, "StoreNew": 10, "StoreUpdate": 8, "Complete": 30, "Cancel": 3, "Terminate": 4,
			"Renew": 6, "Migrate": 4, "Claim": 5, "AddVstorage": 2, "RemoveVstorage": 2, "Permission": 2},
		Sizes:    []int64{1, 1000, 5000, 10000},
		Durs:     []int64{3600, 3601, 7200},
		Timeouts: []int64{5, 20, 1800, 3600},
		Caps:     []int64{1000000, 2000000, 999999, 1000001, 20000},
		MaxData:  4,
	}
}

// lifeProfile: few data models, deep per-model histories (renewals in a row, migrations,
// hand-overs, expiry boundaries).
func lifeProfile() chain.Profile {
	p := payProfile()
	p.Name = "life"
	p.MaxData = 2
	p.Weights = map[string]int{"Blocks": 22, "StoreNew": 6, "StoreUpdate": 5, "Complete": 34, "Cancel": 1, "Terminate": 2,
		"Renew": 12, "Migrate": 12, "Claim": 4, "AddVstorage": 1, "RemoveVstorage": 1}
	p.Sizes = []int64{1000, 5000, 10000}
	p.Timeouts = []int64{20, 1800, 3600}
	return p
}

// authProfile: the same world with a third of the requests twisted adversarially; one node
// (a05) declares other people's addresses as its own transaction addresses.
func authProfile() chain.Profile {
	p := payProfile()
	p.Name = "auth"
	p.HotKeys = map[string][]string{"a01": {"a11"}, "a02": {"a12"}, "a05": {"a11", "a01", "a07", "a12"}}
	p.Weights = map[string]int{"Blocks": 14, "StoreNew": 10, "StoreUpdate": 16, "Complete": 24, "Cancel": 5, "CancelAny": 6, "Terminate": 6,
		"Renew": 6, "Migrate": 3, "Claim": 4, "AddVstorage": 2, "RemoveVstorage": 2, "Permission": 8, "Reset": 1, "Ready": 2,
		"StoreForeign": 8, "StoreOddBase": 6, "StoreSponsored": 6, "RenewByLastUpdater": 2, "GranteeCycle": 8}
	p.Adversarial = 35
	p.MaxData = 3
	p.Timeouts = []int64{20, 600, 3600}
	return p
}

// sidauthProfile: the auth profile with data models owned by sid DIDs: requests are signed with the key of one of the
// DID's documents (the latest or an older version), documents are added by key rotation, accounts come and go, and the
// adversarial pool also signs with other DIDs' documents under a header that names the owner.
func sidauthProfile() chain.Profile {
	p := authProfile()
	p.Name = "sidauth"
	p.PayAcc = map[string]string{"d1": "a07", "d2": "a08", "s1": "a09", "s2": "a10"}
	p.Sids = map[string]string{"s1": "a09", "s2": "a10"}
	p.Weights = map[string]int{"Blocks": 12, "StoreNew": 10, "StoreUpdate": 14, "Complete": 24, "Cancel": 3, "Terminate": 6,
		"Renew": 6, "Claim": 2, "Permission": 12, "StoreForeign": 6, "StoreSponsored": 4, "SidBind": 7, "SidRotate": 7, "Ready": 8, "CancelAny": 3, "ExAccountStore": 10}
	p.Adversarial = 40
	return p
}

// rewardProfile: block rewards are minted (see cfgFor); capacity is added, removed and claimed
// on varying schedules, a provider joins late.
func rewardProfile() chain.Profile {
	p := payProfile()
	p.Name = "reward"
	p.Nodes = []string{"a01", "a02", "a03"}
	p.LateNodes = []string{"a05"}
	p.Weights = map[string]int{"Blocks": 30, "StoreNew": 4, "Complete": 10, "Claim": 18, "AddVstorage": 14, "RemoveVstorage": 12,
		"Terminate": 1, "Renew": 2, "Migrate": 2, "CreateLate": 4, "Reset": 2}
	p.Caps = []int64{1000000, 1000000, 2000000, 999999, 1000001}
	p.Sizes = []int64{1000, 10000}
	p.Durs = []int64{3600}
	p.Timeouts = []int64{20, 1800}
	p.MaxData = 2
	p.ShortBlocks = true
	p.MaxUnits = 10 // a block reward of 2520 splits exactly (to 1/1000 coin) over 1..10 capacity units
	return p
}

// cfgFor returns the config overrides a profile needs (trace i of the batch).
func cfgFor(profile string, i int) map[string]interface{} {
	if profile == "fault" {
		return map[string]interface{}{"fishmen": []string{"a05", "a06"}}
	}
	if profile == "poorreward" {
		return map[string]interface{}{"blockReward": []int64{6, 12, 3}[i%3], "baseline": 0}
	}
	if profile == "valset" {
		return map[string]interface{}{"validators": 3, "maxValidators": 2}
	}
	if profile == "scarce" {
		if i%2 == 1 {
			// providers that do not re-declare their status within 400 blocks are taken offline by the node end-blocker
			return map[string]interface{}{"vstorThreshold": 1000000, "offlineTrigger": 400}
		}
		return map[string]interface{}{"vstorThreshold": 1000000}
	}
	if profile == "reward" {
		if i%12 >= 6 {
			// further parameter sets (larger batches only): small and odd rewards, baselines above and below what gets pledged,
			// tiny and huge yields, the shortest halving / adjustment periods the parameters accept
			k := i / 6
			return map[string]interface{}{
				"blockReward":   []int64{1, 7, 840, 2520, 360}[(i+k)%5],
				"baseline":      []int64{0, 5, 1000}[(i+2*k)%3],
				"apy":           []string{"0.5", "600", "0.001", "30"}[(i+3*k)%4],
				"halvingPeriod": []int64{12, 20, 32000000}[(i+k)%3],
				"adjustPeriod":  []int64{11, 2000}[i%2],
			}
		}
		switch i % 6 {
		case 3:
			// twelve block rewards before the first halving point of the subsidy (TOTAL_REWARD / 2): the twelfth minted block
			// lands EXACTLY on the boundary, the thirteenth must already be halved (the age goes 0 -> 1 in the trace)
			return map[string]interface{}{"blockReward": 2520, "baseline": 0, "rewardBase": "199999999969760"}
		case 4:
			// everything has been minted already: no subsidy at all
			return map[string]interface{}{"blockReward": 2520, "baseline": 0, "rewardBase": "400000000000000"}
		case 5:
			// between the second and the third halving point: a quarter of the subsidy - and below the baseline, where the
			// yield-derived reward (60 per pledged coin and block here) is capped by that quarter, not by the full block reward
			return map[string]interface{}{"blockReward": 840, "baseline": 1000, "apy": "600", "halvingPeriod": 20, "rewardBase": "310000000000000"}
		}
		if i%3 == 2 {
			// below the baseline: the per-block reward is capped by pledged * apy / (halving/2)
			return map[string]interface{}{"blockReward": 840, "baseline": 1000, "apy": "600", "halvingPeriod": 20}
		}
		if i%3 == 1 {
			// the per-block reward statistics are rolled over every 11 blocks (the smallest period the params accept)
			return map[string]interface{}{"blockReward": 2520, "baseline": 0, "adjustPeriod": 11}
		}
		return map[string]interface{}{"blockReward": 2520, "baseline": 0}
	}
	return nil
}

// versionProfile: one or two models with long version histories: updates, force-pushes, renewals of
// the latest version, cancellations and timeouts of updates in flight.
func versionProfile() chain.Profile {
	p := payProfile()
	p.Name = "version"
	p.Gateways = []string{"a01", "a02"} // concurrent updates arrive through different gateways
	p.MaxData = 2
	p.Weights = map[string]int{"Blocks": 12, "StoreNew": 4, "StoreUpdate": 24, "Complete": 40, "Cancel": 3, "Terminate": 1,
		"Renew": 12, "Migrate": 3, "Claim": 2, "Permission": 4, "RenewByLastUpdater": 2, "GranteeCycle": 10} // grantees update concurrently with the owner
	p.Sizes = []int64{1000, 5000}
	p.Durs = []int64{3600, 7200}
	p.Timeouts = []int64{20, 1800}
	p.ForcePush = 50
	p.Replicas = []int64{1, 1, 2}
	p.ShortBlocks = true
	return p
}

// faultProfile: fishmen, ordinary nodes and outsiders file, confirm and clear fault reports with matching
// and mismatching contents; providers declare recovery; shards expire under open reports.
func faultProfile() chain.Profile {
	p := payProfile()
	p.Name = "fault"
	p.Nodes = []string{"a01", "a02", "a03", "a04", "a05", "a06"}
	p.Weights = map[string]int{"Blocks": 12, "StoreNew": 10, "StoreUpdate": 3, "Complete": 40, "ReportFaults": 20, "RecoverFaults": 16,
		"Terminate": 1, "Claim": 2, "Renew": 2, "Migrate": 4, "Reset": 1}
	p.Sizes = []int64{1000, 5000}
	p.Durs = []int64{3600}
	p.Timeouts = []int64{20, 1800}
	p.MaxData = 3
	return p
}

// poorProfile: providers run out of money: renewal top-ups and hand-overs are partly taken as recorded debt,
// which is repaid from released collateral and claims.
func poorProfile() chain.Profile {
	p := payProfile()
	p.Name = "poor"
	p.Nodes = []string{"a01", "a02", "a03"}
	p.PayAcc = map[string]string{"d1": "a07"}
	p.RenewMulti = 60
	p.RenewLonger = 50
	p.MaxData = 3
	p.Weights = map[string]int{"Blocks": 16, "StoreNew": 8, "Complete": 30, "Renew": 16, "Migrate": 8, "Claim": 4, "Terminate": 3,
		"Drain": 4, "Refill": 2, "StoreUpdate": 3}
	p.Sizes = []int64{4000}                          // (unclaimed income of a provider, in 10^-6 coins, has to stay below 2^31 as well)
	p.Durs = []int64{3600, 3600, 7200, 20000, 50000} // size x replica x duration stays below 2^31 (TLC integers)
	p.Timeouts = []int64{20, 1800}
	p.Replicas = []int64{1, 2}
	return p
}

// poorrewardProfile: the poor profile on a chain that mints a small block reward: claims by providers in debt (the reward
// repays recorded debt first), several claims in a row; short block steps keep the reward arithmetic exact.
func poorrewardProfile() chain.Profile {
	p := poorProfile()
	p.Name = "poorreward"
	p.Weights = map[string]int{"Blocks": 18, "StoreNew": 8, "Complete": 30, "Renew": 16, "Migrate": 4, "Claim": 16, "Terminate": 2,
		"Drain": 5, "Refill": 1}
	p.Caps = []int64{1000000, 2000000}
	p.ShortBlocks = true
	return p
}

// scarceProfile: few providers, high replica counts, short timeouts and mostly silent providers:
// the timeout machinery re-assigns, partially re-assigns, gives up and refunds.
func scarceProfile() chain.Profile {
	p := payProfile()
	p.Name = "scarce"
	p.Nodes = []string{"a01", "a02", "a03", "a04"}
	p.LateNodes = []string{"a05"}
	p.Weights = map[string]int{"Blocks": 40, "StoreNew": 10, "StoreUpdate": 3, "Complete": 12, "Cancel": 4, "Terminate": 1,
		"Renew": 2, "Claim": 3, "CreateLate": 2, "Reset": 3, "RemoveVstorage": 2, "AddVstorage": 2, "SuperCycle": 5, "StoreSponsored": 5}
	p.Staking = true // with a low capacity threshold (cfgFor): some providers are super nodes when orders are re-assigned
	p.Sizes = []int64{1000, 10000}
	p.Durs = []int64{3600, 7200}
	p.Timeouts = []int64{5, 20, 100, 1800}
	p.MaxData = 4
	p.Replicas = []int64{2, 3, 3, 4}
	return p
}

// superProfile: nodes around the capacity threshold delegate to / undelegate from two validators,
// third parties dilute them, some staking transactions fail half-way, nodes reset their status.
func superProfile() chain.Profile {
	p := payProfile()
	p.Name = "super"
	p.Nodes = []string{"a01", "a02", "a03"}
	p.Gateways = []string{"a01", "a02", "a03"}
	p.Weights = map[string]int{"Blocks": 14, "Delegate": 26, "Undelegate": 16, "Redelegate": 8, "ResetSuper": 10, "AddVstorage": 8, "RemoveVstorage": 8,
		"StoreNew": 6, "Complete": 8, "Claim": 2, "SuperCycle": 14, "StaleHook": 6, "CreateLate": 6}
	p.LateNodes = []string{"a06"} // joins later and never pledges any capacity: no pledge record at all
	p.Caps = []int64{1000000, 2000000, 3000000}
	p.Sizes = []int64{1000}
	p.Durs = []int64{3600}
	p.Timeouts = []int64{20, 1800}
	p.MaxData = 3
	p.ShortBlocks = true
	p.Staking = true
	return p
}

// superstoreProfile: the super profile with many stores: several super nodes exist early on and orders keep drawing on the
// round-robin cursor that picks one of them (block streams for the replica engine).
func superstoreProfile() chain.Profile {
	p := superProfile()
	p.Name = "superstore"
	p.Caps = []int64{3000000, 3000000, 4000000}
	p.Weights = map[string]int{"Blocks": 14, "Delegate": 10, "Undelegate": 4, "ResetSuper": 4, "SuperCycle": 24, "AddVstorage": 2,
		"StoreNew": 30, "Complete": 16, "Terminate": 6, "Claim": 2}
	p.MaxData = 6
	return p
}

// valsetProfile: the super profile on three validators of which two are active: stake moves in whole units of consensus
// power, validators enter and leave the active set at the end of the block (x/staking end-blocker -> x/node hooks).
func valsetProfile() chain.Profile {
	p := superProfile()
	p.Name = "valset"
	p.Vals = []string{"v1", "v2", "v3"}
	p.Weights = map[string]int{"Blocks": 16, "Delegate": 18, "Undelegate": 14, "Redelegate": 8, "ResetSuper": 8, "AddVstorage": 6, "RemoveVstorage": 4,
		"StoreNew": 4, "Complete": 6, "SuperCycle": 10, "ValRotate": 16, "StaleHook": 6, "CreateLate": 6}
	return p
}

func profileByName(n string) chain.Profile {
	switch n {
	case "valset":
		return valsetProfile()
	case "pay":
		return payProfile()
	case "life":
		return lifeProfile()
	case "auth":
		return authProfile()
	case "sidauth":
		return sidauthProfile()
	case "reward":
		return rewardProfile()
	case "scarce":
		return scarceProfile()
	case "super":
		return superProfile()
	case "superstore":
		return superstoreProfile()
	case "version":
		return versionProfile()
	case "fault":
		return faultProfile()
	case "poor":
		return poorProfile()
	case "poorreward":
		return poorrewardProfile()
	case "did":
		p := payProfile()
		p.Name = "did"
		return p
	}
	die("unknown profile %s", n)
	return chain.Profile{}
}

func cmdDrive(args []string) {
	fs := flag.NewFlagSet("drive", flag.ExitOnError)
	seed := fs.Int64("seed", 1, "random seed")
	n := fs.Int("n", 60, "events per trace")
	traces := fs.Int("traces", 1, "number of traces")
	outDir := fs.String("out", ".", "output directory")
	prof := fs.String("profile", "pay", "driver profile")
	cfgJSON := fs.String("cfg", "", "config overrides (JSON)")
	abciMode := fs.Bool("abci", false, "drive through the real ABCI calls (DeliverTx / EndBlock / Commit / BeginBlock of all modules)")
	fs.Parse(args)
	os.MkdirAll(*outDir, 0o755)
	start := time.Now()
	halted := 0
	for i := 0; i < *traces; i++ {
		cfg := loadCfg(*cfgJSON)
		if ov := cfgFor(*prof, i); ov != nil {
			b, _ := json.Marshal(ov)
			json.Unmarshal(b, &cfg)
		}
		s := *seed*1000 + int64(i)
		cfg.Salt = s%997 + 1
		c, err := chain.New(cfg)
		if err != nil {
			die("chain.New: %v", err)
		}
		c.ABCI = *abciMode
		path := filepath.Join(*outDir, fmt.Sprintf("%s-%d-%03d.ndjson", *prof, *seed, i))
		tw, err := chain.NewTraceWriter(path)
		if err != nil {
			die("%v", err)
		}
		tw.Genesis(c)
		d := &chain.Driver{C: c, T: tw, R: rand.New(rand.NewSource(s)), P: profileByName(*prof)}
		d.Run(*n)
		tw.Close()
		if d.Stop != "" && d.Stop != "RANGE" {
			halted++
			if d.Stop == "HANG" {
				// a hung goroutine cannot be cancelled; finish this process
				fmt.Printf("STOP trace=%s reason=HANG\n", path)
				fmt.Printf("DONE traces=%d halted=%d wall=%.1fs\n", i+1, halted, time.Since(start).Seconds())
				os.Exit(3)
			}
		}
	}
	fmt.Printf("DONE traces=%d halted=%d wall=%.1fs\n", *traces, halted, time.Since(start).Seconds())
}

func loadCfg(cfgJSON string) chain.Config {
	cfg := chain.DefaultConfig()
	if cfgJSON != "" {
		if err := json.Unmarshal([]byte(cfgJSON), &cfg); err != nil {
			die("bad cfg: %v", err)
		}
	}
	return cfg
}

// genesis: write {cfg, post} of a fresh chain (the initial state of the bounded models).
func cmdGenesis(args []string) {
	fs := flag.NewFlagSet("genesis", flag.ExitOnError)
	cfgJSON := fs.String("cfg", "", "config overrides (JSON)")
	out := fs.String("out", "genesis.json", "output file")
	fs.Parse(args)
	c, err := chain.New(loadCfg(*cfgJSON))
	if err != nil {
		die("chain.New: %v", err)
	}
	b, _ := json.Marshal(map[string]interface{}{"cfg": c.SpecConfig(), "post": c.Project()})
	if err := os.WriteFile(*out, b, 0o644); err != nil {
		die("%v", err)
	}
}

// replay: execute a list of abstract events (JSON array, or the "ev" of ndjson trace lines) on the
// real code and record the trace.
func cmdReplay(args []string) {
	fs := flag.NewFlagSet("replay", flag.ExitOnError)
	in := fs.String("in", "", "events: JSON array file, or an ndjson trace/replay file")
	out := fs.String("out", "replayed.ndjson", "output trace")
	cfgJSON := fs.String("cfg", "", "config overrides (JSON); an ndjson input carries its own")
	abciMode := fs.Bool("abci", false, "replay through the real ABCI calls")
	fs.Parse(args)
	replayABCI = *abciMode
	if st, err := os.Stat(*in); err == nil && st.IsDir() {
		// batch mode: every *.json behaviour in the directory -> <out>/<name>.ndjson
		ents, _ := os.ReadDir(*in)
		os.MkdirAll(*out, 0o755)
		n, stops := 0, 0
		for _, e := range ents {
			if filepath.Ext(e.Name()) != ".json" || e.Name() == "genesis.json" {
				continue
			}
			raw, err := os.ReadFile(filepath.Join(*in, e.Name()))
			if err != nil {
				die("%v", err)
			}
			var events []chain.Event
			if err := json.Unmarshal(raw, &events); err != nil {
				die("bad behaviour %s: %v", e.Name(), err)
			}
			stop := replayOne(loadCfg(*cfgJSON), events, filepath.Join(*out, e.Name()[:len(e.Name())-5]+".ndjson"))
			n++
			if stop != "" {
				stops++
			}
			if stop == "HANG" {
				fmt.Printf("DONE behaviours=%d stopped=%d\n", n, stops)
				os.Exit(3)
			}
		}
		fmt.Printf("DONE behaviours=%d stopped=%d\n", n, stops)
		return
	}
	raw, err := os.ReadFile(*in)
	if err != nil {
		die("%v", err)
	}
	var events []chain.Event
	cfg := loadCfg(*cfgJSON)
	if len(raw) > 0 && raw[0] == '[' {
		if err := json.Unmarshal(raw, &events); err != nil {
			die("bad events: %v", err)
		}
	} else {
		for _, line := range splitLines(raw) {
			var l struct {
				Kind string                 `json:"kind"`
				Ev   chain.Event            `json:"ev"`
				Raw  map[string]interface{} `json:"rawcfg"`
			}
			if err := json.Unmarshal(line, &l); err != nil {
				die("bad line: %v", err)
			}
			if l.Kind == "genesis" {
				if l.Raw != nil {
					b, _ := json.Marshal(l.Raw)
					json.Unmarshal(b, &cfg)
				}
				continue
			}
			events = append(events, l.Ev)
		}
	}
	stop := replayOne(cfg, events, *out)
	fmt.Printf("DONE events=%d stop=%s\n", len(events), stop)
	if stop == "HANG" {
		os.Exit(3)
	}
}

var replayABCI bool

func replayOne(cfg chain.Config, events []chain.Event, out string) string {
	c, err := chain.New(cfg)
	if err != nil {
		die("chain.New: %v", err)
	}
	c.ABCI = replayABCI
	tw, err := chain.NewTraceWriter(out)
	if err != nil {
		die("%v", err)
	}
	tw.Genesis(c)
	stop := ""
	for _, e := range events {
		o, _ := c.Step(tw, e)
		if o.Result == "PANIC" || o.Result == "HANG" {
			stop = o.Result
			break
		}
	}
	tw.Close()
	return stop
}

func splitLines(b []byte) [][]byte {
	var out [][]byte
	start := 0
	for i, c := range b {
		if c == '\n' {
			if i > start {
				out = append(out, b[start:i])
			}
			start = i + 1
		}
	}
	if start < len(b) {
		out = append(out, b[start:])
	}
	return out
}

// selection: function-level cases of the real RandomSP / RandomIndex.
func cmdSelection(args []string) {
	fs := flag.NewFlagSet("selection", flag.ExitOnError)
	n := fs.Int("n", 500, "random RandomSP cases")
	seed := fs.Int64("seed", 1, "random seed")
	out := fs.String("out", "selection.ndjson", "output file")
	fs.Parse(args)
	cfg := chain.DefaultConfig()
	cfg.Accounts = 8
	c, err := chain.New(cfg)
	if err != nil {
		die("chain.New: %v", err)
	}
	cases, hangs, err := c.SelectionCases(*out, *n, *seed)
	if err != nil {
		die("%v", err)
	}
	fmt.Printf("DONE cases=%d hangs=%d\n", cases, hangs)
}

// ---------------------------------------------------------------------------
// replica: run a script of ABCI-level steps on an on-disk replica.
type Step struct {
	Op  string        `json:"op"` // block | blocks | restart | checktx | simulate | sleep | export | state
	Txs []chain.Event `json:"txs"`
	Tx  chain.Event   `json:"tx"`
	N   int64         `json:"n"`
	Ms  int64         `json:"ms"`
	To  string        `json:"to"`
}

type StepOut struct {
	Step   int                          `json:"step"`
	Op     string                       `json:"op"`
	Block  *chain.BlockOut              `json:"block,omitempty"`
	Blocks []chain.BlockOut             `json:"blocks,omitempty"`
	State  *chain.State                 `json:"state,omitempty"`
	Note   string                       `json:"note,omitempty"`
	Stores map[string]map[string]string `json:"stores,omitempty"`
}

func cmdReplica(args []string) {
	fs := flag.NewFlagSet("replica", flag.ExitOnError)
	dir := fs.String("dir", "", "database directory")
	script := fs.String("script", "", "script (JSON array of steps)")
	from := fs.Int("from", 0, "first step to execute")
	mode := fs.String("mode", "full", "full | plain (plain ignores restart/checktx/simulate/sleep)")
	cfgJSON := fs.String("cfg", "", "config overrides (JSON)")
	genesis := fs.String("genesis", "", "exported app state to initialise from (fresh dir only)")
	initial := fs.Int64("initial-height", 0, "initial height when starting from an exported genesis")
	out := fs.String("out", "", "append ndjson results here (default stdout)")
	fs.Parse(args)
	raw, err := os.ReadFile(*script)
	if err != nil {
		die("%v", err)
	}
	var steps []Step
	if err := json.Unmarshal(raw, &steps); err != nil {
		die("bad script: %v", err)
	}
	var gen []byte
	if *genesis != "" {
		if gen, err = os.ReadFile(*genesis); err != nil {
			die("%v", err)
		}
	}
	r, err := chain.OpenReplica(loadCfg(*cfgJSON), *dir, gen, *initial)
	if err != nil {
		die("open replica: %v", err)
	}
	w := os.Stdout
	if *out != "" {
		if w, err = os.OpenFile(*out, os.O_APPEND|os.O_CREATE|os.O_WRONLY, 0o644); err != nil {
			die("%v", err)
		}
	}
	emit := func(o StepOut) {
		b, _ := json.Marshal(o)
		w.Write(append(b, '\n'))
	}
	for i := *from; i < len(steps); i++ {
		st := steps[i]
		switch st.Op {
		case "block":
			bo, err := r.Block(st.Txs)
			if err != nil {
				emit(StepOut{Step: i, Op: "halt", Block: &bo, Note: err.Error()})
				r.Close()
				os.Exit(4)
			}
			emit(StepOut{Step: i, Op: "block", Block: &bo})
		case "blocks":
			var last chain.BlockOut
			for k := int64(0); k < st.N; k++ {
				bo, err := r.Block(nil)
				if err != nil {
					emit(StepOut{Step: i, Op: "halt", Block: &bo, Note: err.Error()})
					r.Close()
					os.Exit(4)
				}
				last = bo
			}
			emit(StepOut{Step: i, Op: "blocks", Block: &last})
		case "state":
			s := r.ProjectCommitted()
			emit(StepOut{Step: i, Op: "state", State: &s})
		case "export":
			b, err := r.Export()
			if err != nil {
				emit(StepOut{Step: i, Op: "export", Note: "export failed: " + err.Error()})
				r.Close()
				os.Exit(5)
			}
			os.WriteFile(st.To, b, 0o644)
			s := r.ProjectCommitted()
			emit(StepOut{Step: i, Op: "export", State: &s, Note: fmt.Sprintf("height=%d", r.App.LastBlockHeight())})
		case "restart":
			if *mode == "full" {
				emit(StepOut{Step: i, Op: "restart"})
				r.Close()
				os.Exit(10)
			}
		case "checktx":
			if *mode == "full" {
				code := r.CheckTx(st.Tx)
				emit(StepOut{Step: i, Op: "checktx", Note: fmt.Sprint(code)})
			}
		case "simulate":
			if *mode == "full" {
				emit(StepOut{Step: i, Op: "simulate", Note: r.Simulate(st.Tx)})
			}
		case "toboundary":
			// empty blocks until the NEXT block is one in which something is scheduled (a timeout, a shard expiry, a model
			// expiry): an export taken here has the schedule entry of its very first block still ahead
			st0 := r.ProjectCommitted()
			next := int64(0)
			for _, q := range [][]chain.PSched{st0.TimeoutQ, st0.ExpShardQ} {
				for _, e := range q {
					if e.H > st0.H && (next == 0 || e.H < next) {
						next = e.H
					}
				}
			}
			for _, e := range st0.ExpData {
				if e.H > st0.H && (next == 0 || e.H < next) {
					next = e.H
				}
			}
			adv := int64(0)
			if next > 0 && next-st0.H-1 <= st.N {
				for r.App.LastBlockHeight()+1 < next {
					if _, err := r.Block(nil); err != nil {
						emit(StepOut{Step: i, Op: "halt", Note: err.Error()})
						r.Close()
						os.Exit(4)
					}
					adv++
				}
			}
			emit(StepOut{Step: i, Op: "toboundary", Note: fmt.Sprint(adv)})
		case "stores":
			emit(StepOut{Step: i, Op: "stores", Stores: r.DumpStores()})
		case "setround":
			// compensation for the known export gap (the super-node cursor is not part of x/node's genesis): the cursor
			// is put back by hand so that the REST of an imported chain's behaviour can still be compared
			r.SetNodeRound(st.N)
			emit(StepOut{Step: i, Op: "setround"})
		case "sleep":
			if *mode == "full" {
				time.Sleep(time.Duration(st.Ms) * time.Millisecond)
			}
		}
	}
	r.Close()
}
