"""Replica-level engine for C01 (replica determinism), C03 (crash-restart equivalence) and C18 (genesis round trip).

Replicas.tla is model-checked for the design as implemented (Agreement over every interleaving of B's non-consensus
calls, restarts and clock lateness), must FAIL for the hazardous design (witness), and generates schedules; each
schedule is executed on two REAL replicas (ABCI boundary, signed transactions, goleveldb, a new process per restart)
fed the identical block stream; every ResponseDeliverTx / EndBlock hash and application hash must agree."""
import hashlib, json, os, shutil, subprocess, time

from .common import *

CFG = {"accounts": 12, "dids": 2, "validators": 2, "balance": 10000000, "vstorThreshold": 3000000, "fishmen": ["a03"]}

FAIL_DELEGATE = {"kind": "Delegate", "creator": "a09", "val": "v1", "amount": 20000000}


def base_stream(ts):
    """The block stream concretising MCReplicas!StreamDef (same positions, same kinds)."""
    E = lambda **kw: kw
    store = E(kind="Store", creator="a01", provider="a01", gw="a01", owner="d1", signer="d1", data="D1", commit="D1", op=1,
              dur=3600, replica=2, timeout=10, size=1000, alias="x")
    return [
        [E(kind="PayAddr", creator="a07", acc="a07", did="d1")] + [E(kind="Create", creator=a) for a in ("a01", "a02", "a03")],
        [E(kind="Reset", creator="a01", status=15), E(kind="Reset", creator="a02", status=15), E(kind="Reset", creator="a03", status=13)]
        + [E(kind="AddVstorage", creator=a, size=3000000) for a in ("a01", "a02", "a03")],
        [E(kind="Delegate", creator="a02", val="v1", amount=250000), E(kind="Delegate", creator="a09", val="v1", amount=500000),
         E(kind="Delegate", creator="a01", val="v2", amount=250000)],   # two super nodes: the round-robin cursor moves
        # a second order that is cancelled again: its shard ids are consumed (counters != number of live records)
        [store, dict(store, data="D3", commit="D3", alias="z", replica=1)]
        + [dict(store, data=d, commit=d, alias="m" + d, replica=1) for d in ("D4", "D5", "D6")],      # orders 3, 4, 5
        [E(kind="Complete", creator=a, provider=a, order=o, size=1000) for o in (1, 3, 4, 5) for a in ("a01", "a02", "a03")]
        + [E(kind="Cancel", creator="a01", provider="a01", order=2)],
        [dict(FAIL_DELEGATE)],                                                    # setfail
        [E(kind="Delegate", creator="a10", val="v1", amount=10)],                 # use: a small first-time delegation
        [E(kind="Binding", creator="a05", acc="a05", did="s1", status=1, n=ts)],  # fresh
        # one renewal of several models: any iteration over an unordered collection of them shows up as disagreement
        [E(kind="Renew", creator="a01", provider="a01", owner="d1", signer="d1", datas=["D1", "D4", "D5", "D6"], dur=3600, timeout=10),
         E(kind="Migrate", creator="a01", provider="a01", datas=["D1"])],
        # fault reports by the fishman a03 against whoever holds shards 0/1 (one message per accused provider), a recovery
        # declaration, and a second store left in flight (pending timeout): state that must survive export/import
        [E(kind="ReportFaults", creator="a03", provider=p, faults=[dict(data="D1", order=1, shard=sh, commit="c99", provider=p) for sh in (0, 1)])
         for p in ("a01", "a02")]
        + [E(kind="RecoverFaults", creator="a01", provider="a01", faults=[dict(data="D1", order=1, shard=sh, commit="D1", provider="a01") for sh in (0, 1)]),
           E(kind="Claim", creator="a01"), E(kind="Claim", creator="a02"), E(kind="Undelegate", creator="a02", val="v1", amount=250000),
           E(kind="Store", creator="a01", provider="a01", gw="a01", owner="d1", signer="d1", data="D2", commit="D2", op=1,
             dur=3600, replica=1, timeout=50, size=5000, alias="y")],
    ]


def script_for(stream, sched, sleep_ms=0, states_from=None, export_at=None, export_to=None):
    """Interleave B's extra actions (sched: list of {gap, op}) with the blocks."""
    steps = []
    for i, txs in enumerate(stream):
        for s in [x for x in sched if x["gap"] == i]:
            if s["op"] in ("checktx", "simulate"):
                steps.append({"op": s["op"], "tx": FAIL_DELEGATE})
            elif s["op"] == "restart":
                steps.append({"op": "restart"})
            elif s["op"] == "delay":
                steps.append({"op": "sleep", "ms": sleep_ms})
            elif s["op"] == "query":
                steps.append({"op": "state"})
        if export_at is not None and export_at == i:
            steps.append({"op": "export", "to": export_to})
        steps.append({"op": "block", "txs": txs})
        if states_from is not None and i >= states_from:
            steps.append({"op": "state"})
    if export_at is not None and export_at == len(stream):
        steps.append({"op": "export", "to": export_to})
    steps.append({"op": "blocks", "n": 3})
    steps.append({"op": "state"})
    return steps


def run_replica(binary, workdir, name, steps, mode, genesis=None, initial=0, start=0):
    """Run a replica script; restarts spawn new processes. Returns list of output records."""
    d = os.path.join(workdir, name)
    if start == 0:
        shutil.rmtree(d, ignore_errors=True)
    os.makedirs(d, exist_ok=True)
    sp = os.path.join(workdir, name + ".script.json")
    json.dump(steps, open(sp, "w"))
    out = os.path.join(workdir, name + ".out.ndjson")
    if start == 0 and os.path.exists(out):
        os.remove(out)
    frm = start
    for attempt in range(1000):   # one iteration per process: every restart step ends the process (rc 10)
        cmd = [binary, "replica", "--dir", os.path.join(d, "db"), "--script", sp, "--from", str(frm), "--mode", mode,
               "--cfg", json.dumps(CFG), "--out", out]
        if genesis:
            cmd += ["--genesis", genesis, "--initial-height", str(initial)]
        rc, o, _ = run(cmd, timeout=600)
        if rc == 10:  # stopped at a restart step: continue in a NEW process
            recs = [json.loads(l) for l in open(out)]
            frm = max(r["step"] for r in recs) + 1
            continue
        if rc not in (0, 4, 5):
            raise MachineryError("replica %s failed rc=%d: %s" % (name, rc, o[-1500:]))
        break
    else:
        raise MachineryError("replica %s: the script did not finish (restart loop)" % name)
    return [json.loads(l) for l in open(out)]


def blocks_of(recs):
    out = {}
    for r in recs:
        if r["op"] in ("block", "blocks", "halt") and r.get("block"):
            b = r["block"]
            out[b["height"]] = b
    return out


def compare_blocks(a, b):
    """First disagreement between two replicas' block outputs, or None."""
    for h in sorted(set(a) & set(b)):
        x, y = a[h], b[h]
        if x["appHash"] != y["appHash"] or x.get("end") != y.get("end") or [t["hash"] for t in x["txs"]] != [t["hash"] for t in y["txs"]]:
            detail = {"height": h, "appHash": [x["appHash"][:16], y["appHash"][:16]]}
            for i, (t, u) in enumerate(zip(x["txs"], y["txs"])):
                if t["hash"] != u["hash"]:
                    detail["tx"] = i
                    detail["codes"] = [t["code"], u["code"]]
                    detail["logs"] = [t["log"][:120], u["log"][:120]]
                    break
            return detail
    if set(a) != set(b):
        return {"height": "missing", "heights": [sorted(a)[-3:], sorted(b)[-3:]]}
    return None


def model_check(workdir):
    """Replicas.tla: the implemented design satisfies Agreement exhaustively; the hazardous design must violate it."""
    stage_spec(workdir)
    res = {}
    for cfg, expect_ok in (("Replicas_fixed.cfg", True), ("Replicas_hazard.cfg", False)):
        rc, out, wall = tlc(workdir, "MCReplicas.tla", cfg, workers=8, timeout=900, heap="6g")
        m = TLC_STATS.search(out)
        ok = "No error has been found" in out
        violated = "Invariant Agreement is violated" in out
        if expect_ok and not ok:
            raise MachineryError("Replicas.tla: Agreement does not hold for the implemented design: " + out[-1500:])
        if not expect_ok and not violated:
            raise MachineryError("Replicas.tla: the hazard witness did not violate Agreement (vacuous model)")
        res[cfg] = {"states": int(m.group(2)) if m else 0, "generated": int(m.group(1)) if m else 0, "wall_s": round(wall, 1)}
    return res


def gen_schedules(workdir, n, seed):
    d = os.path.join(workdir, "gen")
    stage_spec(d)
    rc, out, _ = run(["timeout", "300", "tlc", "-workers", "1", "-simulate", "num=%d" % n, "-depth", "80", "-seed", str(seed),
                      "-metadir", os.path.join(d, "meta"), "-config", "Replicas_gen.cfg", "MCReplicas.tla"], cwd=d, timeout=330)
    if "traces generated" not in out:
        raise MachineryError("schedule generation failed: " + out[-1500:])
    scheds = []
    for f in sorted(os.listdir(d)):
        if f.startswith("sched_") and f.endswith(".json"):
            scheds.append(json.load(open(os.path.join(d, f))))
    # distinct, non-empty schedules plus the three canonical single-fault ones
    seen, out_s = set(), []
    canon = [[{"gap": 6, "op": "simulate"}], [{"gap": 6, "op": "restart"}], [{"gap": 7, "op": "delay"}], [{"gap": 4, "op": "restart"}, {"gap": 6, "op": "checktx"}]]
    for s in canon + scheds:
        k = json.dumps(s, sort_keys=True)
        if s and k not in seen:
            seen.add(k)
            out_s.append(s)
    return out_s


SET_LIKE = ("pay", "kids", "bindings", "didBal", "accLists", "accIds", "accAuths", "versions", "seeds")


def state_diff(x, y):
    """Names of the abstract-state fields that differ (did tables as sets; height-independent)."""
    out = []
    for k in sorted(set(x) | set(y)):
        if k in ("seed", "inexact", "junk", "vol"):
            continue
        a, b = x.get(k), y.get(k)
        if k in SET_LIKE:
            a = sorted(json.dumps(i, sort_keys=True) for i in (a or []))
            b = sorted(json.dumps(i, sort_keys=True) for i in (b or []))
        if a != b:
            out.append(k)
    return out


# ---------------------------------------------------------------------------
# Random block streams. The fixed stream above concretises the model's StreamDef; the streams below are whatever the
# state-aware drivers produce (recorded once through the ABCI driver), replayed on three real replicas:
#   A  plain;
#   Bs the same blocks plus NON-CONSENSUS executions in between (Simulate / CheckTx of transactions that fail half-way,
#      aimed at whoever acts next, and of the next block's own transactions)          -> C01
#   Br the same blocks with process restarts (always right after a block in which a staking transaction failed) -> C03
STREAM_PLAN = {
    "quick": [("super", 2, 70), ("superstore", 2, 70), ("valset", 1, 70), ("poor", 1, 40), ("pay", 1, 40)],
    "thorough": [("super", 10, 110), ("superstore", 8, 110), ("valset", 6, 110), ("pay", 3, 80), ("life", 3, 80), ("poor", 3, 80), ("sidauth", 3, 80), ("fault", 2, 80), ("did", 2, 80)],
}
# profiles whose driver world differs from the default one (cmd/saoharness cfgFor): the replicas are created with the same
STREAM_CFG = {"valset": {"validators": 3, "maxValidators": 2}}
STAKING_KINDS = ("Delegate", "Undelegate", "Redelegate", "Reset", "AddVstorage", "RemoveVstorage", "Create")


def stream_from_trace(path, max_skip=30):
    """Blocks of a recorded driver trace: the transactions between two Blocks events form one block."""
    blocks, cur, failed = [], [], []
    bad = False
    for line in open(path):
        r = json.loads(line)
        if r.get("kind") != "event":
            continue
        ev = r["ev"]
        if ev["kind"] == "Blocks":
            blocks.append({"txs": cur, "skip": max(0, min(int(ev["n"]) - 1, max_skip)), "failed_staking": bad})
            cur, bad = [], False
        else:
            ev = dict(ev)
            if ev["kind"] in ("Delegate", "Undelegate", "Redelegate") and r["out"]["result"] != "ok":
                bad = True
                ev["_failed"] = True
            cur.append(ev)
    if cur:
        blocks.append({"txs": cur, "skip": 0, "failed_staking": bad})
    return blocks


def stream_scripts(blocks, rnd):
    """(plain, noise A, noise B, restarts) scripts for one stream.

    The driver's stream is first cut into smaller blocks (the same cut for all replicas) and seasoned with consensus
    transactions that FAIL half-way: before some of the transactions that re-decide a node's role (Reset, AddVstorage,
    delegations) a delegation far above the balance of somebody who already holds one is put into a block of its own: it
    fails between the two staking hooks of x/node. Two ways of choosing that somebody:
      A  the operator of a validator (his self-delegation is the largest there is);
      B  the very account that acts next, on a validator it already delegates to (another one than it is about to use,
         if there is a choice).
    Then
      noisyA / noisyB = the stream + such a transaction as a NON-consensus call (Simulate / CheckTx) directly before the
                        block of EVERY transaction of those kinds, chosen the A resp. the B way;
      restarts        = the stream with a restart right after every block in which a staking transaction failed, and at
                        random."""
    plain, noisy_a, noisy_b, restarts = [], [], [], []
    deleg_on = {"vo1": ["v1"], "vo2": ["v2"]}   # who delegates where (successful delegations seen so far in the stream)

    def poison(tx, how):
        if how == "B" and deleg_on.get(tx["creator"]):
            vals = [v for v in deleg_on[tx["creator"]] if v != tx.get("val")] or deleg_on[tx["creator"]]
            who, val = tx["creator"], rnd.choice(vals)
        else:
            val = tx.get("val") if tx.get("val") in ("v1", "v2") and rnd.random() < 0.7 else rnd.choice(["v1", "v2"])
            who = {"v1": "vo1", "v2": "vo2"}[val]
        return {"kind": "Delegate", "creator": who, "val": val, "amount": 200000000}

    cut = []   # {"txs", "skip", "failed_staking", "na": [...], "nb": [...]}
    for b in blocks:
        cur, na, nb = [], [], []

        def close(failed=False, skip=0):
            nonlocal cur, na, nb
            cut.append({"txs": cur, "skip": skip, "failed_staking": failed, "na": na, "nb": nb})
            cur, na, nb = [], [], []

        for tx in b["txs"]:
            failed = tx.pop("_failed", False)
            target = tx["kind"] in STAKING_KINDS
            if target and rnd.random() < (0.8 if tx["kind"] in ("Reset", "AddVstorage", "RemoveVstorage") else 0.15):
                # a failing delegation IN the stream, in a block of its own, directly before the block of its target
                if cur:
                    close()
                cur = [poison(tx, rnd.choice("AB"))]
                close(failed=True)
            if target:
                # non-consensus noise aimed at this transaction: it becomes the first of a new block, the calls sit before it
                if cur:
                    close()
                na.append({"op": rnd.choice(["simulate", "checktx"]), "tx": poison(tx, "A")})
                nb.append({"op": rnd.choice(["simulate", "checktx"]), "tx": poison(tx, "B")})
            elif rnd.random() < 0.35:
                # a non-consensus execution of the very transaction that is about to be delivered (a gas simulation)
                na.append({"op": rnd.choice(["simulate", "checktx"]), "tx": tx})
                nb.append({"op": "simulate", "tx": tx})
            if tx["kind"] == "PayAddr" and rnd.random() < 0.7:
                # a ROLLED-BACK registration by a rival: one transaction of two messages - the rival registers itself as the payment
                # address of the very DID that is about to be registered, then stores in that DID's name for a price beyond any
                # balance (the store reads the uncommitted registration, then fails): the whole transaction is undone. In a block
                # of its own, followed by a restart on the restarting replica; the real registration comes next.
                rival = "a07" if tx["creator"] != "a07" else "a06"
                if cur:
                    close()
                cur = [{"kind": "PayAddr", "creator": rival, "acc": rival, "did": tx["did"],
                        "also": [{"kind": "Store", "creator": rival, "provider": "a01", "gw": "a01", "owner": tx["did"], "signer": tx["did"],
                                  "paydid": tx["did"], "data": "D12", "commit": "D12", "cseg": ["D12"], "alias": "alD12", "op": 1,
                                  "dur": 20000000000000, "replica": 1, "timeout": 1800, "size": 1000}]}]
                close(failed=True)
            if tx["kind"] == "Store" and tx.get("op") == 1 and rnd.random() < 0.5:
                # a store that gets as far as choosing providers and then fails (its price is beyond any balance): in the stream,
                # in a block of its own, followed by a restart on the restarting replica
                if cur:
                    close()
                cur = [dict(tx, data="D12", commit="D12", cseg=["D12"], alias="alD12", dur=20000000000000)]
                close(failed=True)
            cur.append(tx)
            if tx["kind"] == "Delegate" and not failed and tx.get("val") in ("v1", "v2"):
                deleg_on.setdefault(tx["creator"], [])
                if tx["val"] not in deleg_on[tx["creator"]]:
                    deleg_on[tx["creator"]].append(tx["val"])
            if failed or rnd.random() < 0.4:
                close(failed=failed)
        close(skip=b["skip"])
    for b in cut:
        noisy_a += b["na"]
        noisy_b += b["nb"]
        if rnd.random() < 0.1:
            restarts.append({"op": "restart"})
        for sc in (plain, noisy_a, noisy_b, restarts):
            sc.append({"op": "block", "txs": b["txs"]})
        if b["failed_staking"]:
            restarts.append({"op": "restart"})
        if b["skip"]:
            for sc in (plain, noisy_a, noisy_b, restarts):
                sc.append({"op": "blocks", "n": b["skip"]})
    for sc in (plain, noisy_a, noisy_b, restarts):
        sc.append({"op": "blocks", "n": 2})
    return plain, noisy_a, noisy_b, restarts


def export_roundtrip(binary, workdir, name, steps, cut, entry):
    """steps[:cut] on chain X, export, then X goes on with steps[cut:]; chain Y is initialised from the export at the
    next height and is fed the same steps[cut:]. The imported state must equal the exported one and the two chains must
    stay equal (projected state after every later block)."""
    exp = os.path.join(workdir, name + ".genesis.json")
    rest = []
    for st in steps[cut:]:
        rest.append(st)
        if st["op"] in ("block", "blocks"):
            rest.append({"op": "state"})
    out = []
    # half of the exports are taken right before a block in which something is scheduled (the schedule entry of the imported
    # chain's very first block)
    pre = [{"op": "toboundary", "n": 4000}] if entry.get("boundary") else []
    rx = run_replica(binary, workdir, name, steps[:cut] + pre + [{"op": "export", "to": exp}, {"op": "stores"}] + rest, "plain")
    ex = [r for r in rx if r["op"] == "export"]
    if not ex or not os.path.exists(exp) or not ex[0].get("state"):
        entry["export"] = "failed"
        return [{"formula": "C18_ExportSucceeds", "detail": "export failed on %s after step %d: %s" % (name, cut, [r.get("note") for r in rx][-1:]), "script": name}]
    before = ex[0]["state"]
    # the imported state is read first; then the one field known to be lost (the super-node cursor, see known_findings)
    # is put back by hand, so that the rest of the continuation is still compared
    try:
        ry = run_replica(binary, workdir, name + "i", [{"op": "state"}, {"op": "stores"}, {"op": "setround", "n": before.get("round", -1)}] + rest, "plain",
                         genesis=exp, initial=before["h"] + 1)
    except MachineryError as e:
        if "validator set is empty after InitGenesis" in str(e):
            # the stream had withdrawn all stake from every validator: no chain can be started from that state (x/staking
            # refuses it), and the one it was exported from could not have continued under a consensus engine either
            entry["export"] = {"height": before["h"], "skipped": "the exported state has no validator with consensus power"}
            return []
        raise
    sx = [r["state"] for r in rx if r["op"] == "state"]
    sy = [r["state"] for r in ry if r["op"] == "state"]
    res = {"height": before["h"], "import_diff": [], "continuation_diff": []}
    if sy:
        res["import_diff"] = state_diff(before, dict(sy[0], h=before["h"]))
    # the raw key/value contents of the six modules' stores, uninterpreted: whatever the projection does not know is here too
    stx = [r["stores"] for r in rx if r["op"] == "stores"]
    sty = [r["stores"] for r in ry if r["op"] == "stores"]
    if stx and sty:
        raw = sorted("store:" + k for k in set(stx[0]) | set(sty[0]) if stx[0].get(k) != sty[0].get(k))
        res["store_keys_compared"] = sum(len(v) for v in stx[0].values())
        res["import_diff"] += raw
    # the continuation is compared when the import was exact up to that cursor: once any other field is lost, what follows
    # differs in unbounded ways and says nothing new
    if set(res["import_diff"]) <= {"round", "store:node:NodeRound"}:
        for i, (a, b) in enumerate(zip(sx, sy[1:])):
            dd = state_diff(a, b)
            if dd:
                res["continuation_diff"] = [{"height": a["h"], "fields": dd}]
                break
    if any(r["op"] == "halt" for r in ry) and not any(r["op"] == "halt" for r in rx):
        res["continuation_diff"].append({"halt": [r.get("note") for r in ry if r["op"] == "halt"]})
    entry["export"] = res
    if res["import_diff"]:
        out.append({"formula": "C18_RoundTripState", "detail": json.dumps(res)[:500], "script": name, "fields": res["import_diff"]})
    if res["continuation_diff"]:
        out.append({"formula": "C18_ContinuationAgrees", "detail": json.dumps(res)[:500], "script": name,
                    "fields": res["continuation_diff"][0].get("fields", ["halt"])})
    for n2 in (name, name + "i"):
        shutil.rmtree(os.path.join(workdir, n2, "db"), ignore_errors=True)
    return out


def random_streams(binary, workdir, tier, seed):
    import random
    rnd = random.Random(seed * 7919 + 13)
    global CFG
    saved = CFG
    violations, runs = [], []
    tdir = os.path.join(workdir, "streams")
    shutil.rmtree(tdir, ignore_errors=True)
    os.makedirs(tdir)

    def one_stream(f, blocks, name):
        plain, noisy_a, noisy_b, restarts = stream_scripts(blocks, rnd)
        # the plain replica also reports its state after every step: the export point is chosen among the states IT reaches
        probe, probe_at = [], []
        for i, st in enumerate(plain):
            probe.append(st)
            if st["op"] in ("block", "blocks"):
                probe.append({"op": "state"})
                probe_at.append(i)
        ra = run_replica(binary, workdir, name + "a", probe, "plain")
        ba = blocks_of(ra)
        level = {}
        for i, stt in zip(probe_at, [r["state"] for r in ra if r["op"] == "state" and r.get("state")]):
            # open pledge debts / fault reports (2); orders not yet handed over, hand-overs in progress, unbonding stake (1)
            level[i] = 2 if (stt.get("pdebts") or stt.get("faults")) else \
                1 if (stt.get("unbond") or stt.get("redel") or any(o.get("status") == 0 for o in stt.get("orders", []))
                      or any(x.get("status") == 4 for x in stt.get("shards", []))) else 0
        entry = {"stream": f, "blocks": len(ba), "txs": sum(len(b["txs"]) for b in blocks),
                 "noise_calls": sum(1 for s in noisy_a + noisy_b if s["op"] in ("simulate", "checktx")),
                 "restarts": sum(1 for s in restarts if s["op"] == "restart")}
        if any(r["op"] == "halt" for r in ra):
            violations.append({"formula": "C02_NoHaltABCI", "detail": "replica halted on stream %s: %s" % (f, [r.get("note") for r in ra if r["op"] == "halt"]), "script": name + "a"})
        for tag, script, formula in (("n", noisy_a, "C01_Agreement"), ("m", noisy_b, "C01_Agreement"), ("r", restarts, "C03_RestartAgreement")):
            rb = run_replica(binary, workdir, name + tag, script, "full")
            d = compare_blocks(ba, blocks_of(rb))
            entry["agree_" + tag] = d is None
            if d is not None:
                violations.append({"formula": formula, "detail": json.dumps({"stream": f, "diff": d})[:600], "script": name + tag})
            shutil.rmtree(os.path.join(workdir, name + tag, "db"), ignore_errors=True)
        shutil.rmtree(os.path.join(workdir, name + "a", "db"), ignore_errors=True)
        # C18 on this stream: export after a random block, start a fresh chain from the export, feed both the rest
        idx = [i for i, st in enumerate(plain) if st["op"] in ("block", "blocks")]
        if len(idx) > 4:
            rich2 = [i for i in idx[2:-1] if level.get(i) == 2]
            rich = [i for i in idx[2:-1] if level.get(i)]
            u = rnd.random()
            cut = rnd.choice(rich2 if rich2 and u < 0.8 else rich if rich and u < 0.9 else idx[2:-1]) + 1
            entry["export_after_step"] = cut
            entry["boundary"] = rnd.random() < 0.5
            violations.extend(export_roundtrip(binary, workdir, name + "x", plain, cut, entry))
        runs.append(entry)
    try:
        k = 0
        for (profile, n, nev) in STREAM_PLAN[tier]:
            CFG = STREAM_CFG.get(profile, {})   # {}: the drivers' default world
            rc, o, _ = run([binary, "drive", "--abci", "--profile", profile, "--seed", str(seed * 100 + 50), "--traces", str(n), "--n", str(nev), "--out", tdir], timeout=1200)
            if rc not in (0, 3):
                raise MachineryError("stream driver failed rc=%d: %s" % (rc, o[-1000:]))
            for f in sorted(os.listdir(tdir)):
                if not f.startswith(profile + "-") or not f.endswith(".ndjson"):
                    continue
                blocks = stream_from_trace(os.path.join(tdir, f))
                os.rename(os.path.join(tdir, f), os.path.join(tdir, "used-" + f))
                if not blocks:
                    continue
                name = "S%02d" % k
                k += 1
                one_stream(f, blocks, name)
        # scripted histories whose state holds what the random streams of the quick tier rarely reach (scenarios/replica_*.json:
        # arrays of abstract events, default world): an open pledge debt at the moment of export, ...
        CFG = {}
        sdir = os.path.join(VERIF, "scenarios")
        for f in sorted(os.listdir(sdir)) if os.path.isdir(sdir) else []:
            if f.startswith("replica_") and f.endswith(".json"):
                blocks, cur = [], []
                for ev in json.load(open(os.path.join(sdir, f))):
                    if ev["kind"] == "Blocks":
                        blocks.append({"txs": cur, "skip": max(0, min(int(ev["n"]) - 1, 30)), "failed_staking": False})
                        cur = []
                    else:
                        cur.append(dict(ev))
                if cur:
                    blocks.append({"txs": cur, "skip": 0, "failed_staking": False})
                one_stream(f, blocks, "S%02d" % k)
                k += 1
    finally:
        CFG = saved
    return {"streams": runs, "violations": violations}


def replicas_run(binary, workdir, tier, seed):
    os.makedirs(workdir, exist_ok=True)
    t0 = time.time()
    mc = model_check(os.path.join(workdir, "mc"))
    scheds = gen_schedules(workdir, 10 if tier == "quick" else 70, seed)
    if tier == "quick":
        scheds = scheds[:12]
    violations, runs = [], []
    now = int(time.time())
    # --- shared reference run A (proof timestamp far inside the freshness window)
    stream = base_stream(now - 900 + 5000)
    recA = run_replica(binary, workdir, "A", script_for(stream, [], states_from=0), "plain")
    blkA = blocks_of(recA)
    if any(r["op"] == "halt" for r in recA):
        violations.append({"formula": "C02_NoHaltABCI", "detail": "replica A halted: %s" % [r.get("note") for r in recA if r["op"] == "halt"], "script": "A"})
    for i, sched in enumerate(scheds):
        ops = {s["op"] for s in sched}
        name = "B%02d" % i
        if "delay" in ops:
            # own pair: the proof timestamp expires between A's and B's execution of the block
            ts = int(time.time()) - 900 + 8
            st2 = base_stream(ts)
            ra = run_replica(binary, workdir, name + "a", script_for(st2, []), "plain")
            rb = run_replica(binary, workdir, name, script_for(st2, sched, sleep_ms=9000), "full")
            d = compare_blocks(blocks_of(ra), blocks_of(rb))
        else:
            rb = run_replica(binary, workdir, name, script_for(stream, sched), "full")
            d = compare_blocks(blkA, blocks_of(rb))
        runs.append({"schedule": sched, "agree": d is None})
        if d is not None:
            props = []
            if ops & {"checktx", "simulate", "delay", "query"}:
                props.append("C01_Agreement")
            if "restart" in ops:
                props.append("C03_RestartAgreement")
            for f in props or ["C01_Agreement"]:
                violations.append({"formula": f, "detail": json.dumps({"schedule": sched, "diff": d})[:600], "script": name})
        shutil.rmtree(os.path.join(workdir, name, "db"), ignore_errors=True)
        shutil.rmtree(os.path.join(workdir, name + "a", "db"), ignore_errors=True)
    # --- C18: export at a gap, initialise a fresh chain from the export, continue with the same blocks
    statesA = {}
    h = None
    for r in recA:
        if r["op"] in ("block", "blocks"):
            h = r["block"]["height"]
        if r["op"] == "state" and h is not None:
            statesA[h] = r["state"]
    c18 = []
    # (gap, boundary): boundary = empty blocks first, until the next block is one in which something is scheduled, so that the
    # imported chain's very first block has a schedule entry to honour (only the imported state is compared then: the
    # reference run A has not taken those extra blocks)
    points = [(5, False), (10, False), (10, True)] if tier == "quick" else [(g, False) for g in (3, 4, 5, 7, 8, 9, 10)] + [(5, True), (9, True), (10, True)]
    for gap, boundary in points:
        name = "X%d%s" % (gap, "b" if boundary else "")
        exp = os.path.join(workdir, name + ".genesis.json")
        steps = script_for(stream, [], states_from=gap, export_at=gap, export_to=exp)
        cut = next(i for i, s in enumerate(steps) if s["op"] == "export")
        pre = [{"op": "toboundary", "n": 4000}] if boundary else []
        rx = run_replica(binary, workdir, name, steps[:cut] + pre + [steps[cut], {"op": "stores"}], "plain")
        ex = [r for r in rx if r["op"] == "export"]
        if not ex or not os.path.exists(exp):
            violations.append({"formula": "C18_ExportSucceeds", "detail": "export failed at gap %d: %s" % (gap, [r.get("note") for r in rx][-1:]), "script": name})
            continue
        before = ex[0]["state"]
        hexp = before["h"]
        ry = run_replica(binary, workdir, name + "i", [{"op": "state"}, {"op": "stores"}] + steps[cut + 1:], "plain", genesis=exp, initial=hexp + 1)
        sts = [r for r in ry if r["op"] == "state"]
        entry = {"gap": gap, "boundary": boundary, "height": hexp, "import_diff": [], "continuation_diff": []}
        if sts:
            entry["import_diff"] = state_diff(before, dict(sts[0]["state"], h=before["h"]))
        stx = [r["stores"] for r in rx if r["op"] == "stores"]
        sty = [r["stores"] for r in ry if r["op"] == "stores"]
        if stx and sty:
            # raw, uninterpreted store contents of the six modules (what the projection does not know is here too)
            entry["import_diff"] += sorted("store:" + k for k in set(stx[0]) | set(sty[0]) if stx[0].get(k) != sty[0].get(k))
            entry["store_keys_compared"] = sum(len(v) for v in stx[0].values())
        # continuation: states after each later block must equal A's at the same height
        hh = None
        for r in ry:
            if r["op"] in ("block", "blocks") and r.get("block"):
                hh = r["block"]["height"]
            if r["op"] == "state" and hh is not None and hh in statesA and not boundary:
                dd = state_diff(statesA[hh], r["state"])
                if dd:
                    entry["continuation_diff"].append({"height": hh, "fields": dd})
                    break
        if any(r["op"] == "halt" for r in ry):
            entry["continuation_diff"].append({"halt": [r.get("note") for r in ry if r["op"] == "halt"]})
        c18.append(entry)
        if entry["import_diff"]:
            violations.append({"formula": "C18_RoundTripState", "detail": json.dumps(entry)[:500], "script": name, "fields": entry["import_diff"]})
        if entry["continuation_diff"]:
            violations.append({"formula": "C18_ContinuationAgrees", "detail": json.dumps(entry)[:500], "script": name,
                               "fields": entry["continuation_diff"][0].get("fields", ["halt"])})
        for n2 in (name, name + "i"):
            shutil.rmtree(os.path.join(workdir, n2, "db"), ignore_errors=True)
    shutil.rmtree(os.path.join(workdir, "A", "db"), ignore_errors=True)
    rs = random_streams(binary, workdir, tier, seed)
    violations += rs["violations"]
    return {"model": mc, "schedules": runs, "c18": c18, "streams": rs["streams"], "violations": violations, "wall_s": round(time.time() - t0, 1),
            "blocks_compared": sum(len(blkA) for _ in runs) + 3 * sum(e["blocks"] for e in rs["streams"])}
