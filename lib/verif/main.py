import argparse, hashlib, json, os, shutil, sys, time

from .common import *
from . import engines

PROPS = ["C%02d" % i for i in range(1, 21)]


def load_known():
    p = os.path.join(VERIF, "known_findings.json")
    if not os.path.exists(p):
        return []
    with open(p) as f:
        return json.load(f).get("findings", [])


def main(argv):
    ap = argparse.ArgumentParser(prog="check")
    ap.add_argument("prop")
    ap.add_argument("--tier", default=os.environ.get("VERIF_TIER", "quick"), choices=["quick", "thorough"])
    ap.add_argument("--replay", default=None)
    ap.add_argument("--no-cache", action="store_true")
    a = ap.parse_args(argv)
    pid = a.prop.upper()
    if pid not in PROPS:
        print("unknown property", pid, file=sys.stderr)
        sys.exit(2)
    try:
        seed = int(os.environ.get("VERIF_SEED", "1"))
    except ValueError:
        seed = 1
    t0 = time.time()
    try:
        if a.replay:
            rc = engines.replay(pid, a.replay)
            sys.exit(rc)
        res = engines.run_property(pid, a.tier, seed, use_cache=not a.no_cache)
    except MachineryError as e:
        print("MACHINERY-ERROR property=%s %s" % (pid, str(e)[:3000]), file=sys.stderr)
        sys.exit(2)
    wall = time.time() - t0
    known = [k for k in load_known() if k.get("property") == pid and k.get("status") == "known"]
    new_violations = []
    seen_known = {}
    for v in res["violations"]:
        kf = engines.match_known(v, known)
        if kf is not None:
            seen_known.setdefault(kf["id"], kf)
        else:
            new_violations.append(v)
    for kf in seen_known.values():
        print("KNOWN-FINDING: property=%s %s" % (pid, kf["what"]))
    # one VIOLATION line per distinct formula (first occurrence carries the replay)
    reported = {}
    for v in new_violations:
        reported.setdefault(v["formula"], v)
    for f, v in reported.items():
        path = engines.save_replay(pid, v)
        print("VIOLATION property=%s replay=%s formula=%s %s" % (pid, path, f, v.get("detail", "")))
    ev = {
        "property_id": pid, "tier": a.tier, "seed": seed, "level": res.get("level", "model_checking"),
        "coverage": res["coverage"], "assumptions": res.get("assumptions", []),
        "wall_s": round(max(wall, res.get("engine_wall_s", 0)), 2), "violations": len(reported),
    }
    ev["coverage"]["known_findings_seen"] = sorted(seen_known.keys())
    evdir = os.environ.get("VERIF_EVIDENCE_DIR", os.path.join(VERIF, "evidence"))
    os.makedirs(evdir, exist_ok=True)
    with open(os.path.join(evdir, pid + ".json"), "w") as f:
        json.dump(ev, f, indent=1, sort_keys=True)
    log("%s %s: %d formulas, %d violation(s), %d known, %.1fs" % (pid, a.tier, len(res["coverage"].get("formulas", {})), len(reported), len(seen_known), wall))
    sys.exit(1 if reported else 0)
