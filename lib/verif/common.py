import tempfile
import fcntl, hashlib, json, os, re, shutil, subprocess, sys, time

VERIF = os.path.abspath(os.path.join(os.path.dirname(os.path.abspath(__file__)), "..", ".."))
REPO = os.environ.get("VERIF_REPO", "/repo")
CACHE = os.path.join(VERIF, ".cache")
GOENV = dict(os.environ, GOFLAGS="-mod=mod", GOPROXY="off", GOSUMDB="off", GOTOOLCHAIN="local")


class MachineryError(Exception):
    pass


def log(*a):
    print("[check]", *a, file=sys.stderr, flush=True)


def sha_files(paths):
    h = hashlib.sha256()
    for p in sorted(paths):
        h.update(p.encode())
        try:
            with open(p, "rb") as f:
                h.update(hashlib.sha256(f.read()).digest())
        except OSError:
            h.update(b"<missing>")
    return h.hexdigest()


def walk(root, exts, skip=()):
    out = []
    for d, dirs, files in os.walk(root):
        dirs[:] = [x for x in dirs if x not in (".git", "node_modules", "ts-client-builder", "docs") and x not in skip]
        for f in files:
            if f.endswith(exts):
                out.append(os.path.join(d, f))
    return out


def repo_hash():
    files = walk(REPO, (".go",)) + [os.path.join(REPO, "go.mod"), os.path.join(REPO, "go.sum")]
    return sha_files(files)


def harness_hash():
    return sha_files(walk(os.path.join(VERIF, "harness"), (".go", ".mod")))


def spec_hash():
    return sha_files(walk(os.path.join(VERIF, "spec"), (".tla", ".cfg")) + walk(os.path.join(VERIF, "lib"), (".py",))
                     + walk(os.path.join(VERIF, "scenarios"), (".json",))
                     + [os.path.join(VERIF, "known_findings.json")])


class Lock:
    def __init__(self, path):
        self.path = path

    def __enter__(self):
        os.makedirs(os.path.dirname(self.path), exist_ok=True)
        self.f = open(self.path, "w")
        fcntl.flock(self.f, fcntl.LOCK_EX)
        return self

    def __exit__(self, *a):
        fcntl.flock(self.f, fcntl.LOCK_UN)
        self.f.close()


def build_harness():
    """Build the harness against /repo's current tree (with the verif build tag). Cached by tree hash."""
    key = hashlib.sha256((repo_hash() + harness_hash()).encode()).hexdigest()[:20]
    out = os.path.join(CACHE, "build", key, "saoharness")
    with Lock(os.path.join(CACHE, "build.lock")):
        if os.path.exists(out):
            return out, key
        t0 = time.time()
        hdir = os.path.join(VERIF, "harness")
        if REPO != "/repo":
            # scratch copy of the repository (mutation runs): build a copy of the harness whose replace points there
            hdir = os.path.join(CACHE, "build", key, "harness-src")
            shutil.rmtree(hdir, ignore_errors=True)
            shutil.copytree(os.path.join(VERIF, "harness"), hdir)
            gm = open(os.path.join(hdir, "go.mod")).read().replace("=> /repo", "=> " + REPO)
            open(os.path.join(hdir, "go.mod"), "w").write(gm)
        shutil.copy(os.path.join(REPO, "go.sum"), os.path.join(hdir, "go.sum"))
        os.makedirs(os.path.dirname(out), exist_ok=True)
        r = subprocess.run(["go", "build", "-tags", "verif", "-o", out, "./cmd/saoharness"], cwd=hdir, env=GOENV,
                           stdout=subprocess.PIPE, stderr=subprocess.STDOUT, text=True)
        if r.returncode != 0:
            shutil.rmtree(os.path.dirname(out), ignore_errors=True)
            raise MachineryError("harness build failed (the tree under /repo does not compile?):\n" + r.stdout[-4000:])
        log("built harness in %.1fs" % (time.time() - t0))
        # prune old builds
        bdir = os.path.join(CACHE, "build")
        # prune builds that are old enough not to be in use by a concurrent check (disk space is limited)
        now = time.time()
        for d in os.listdir(bdir):
            if d != key and now - os.path.getmtime(os.path.join(bdir, d)) > 3 * 3600:
                shutil.rmtree(os.path.join(bdir, d), ignore_errors=True)
        return out, key


def run(cmd, cwd=None, timeout=None, env=None):
    t0 = time.time()
    try:
        r = subprocess.run(cmd, cwd=cwd, env=env, stdout=subprocess.PIPE, stderr=subprocess.STDOUT, text=True, timeout=timeout)
        return r.returncode, r.stdout, time.time() - t0
    except subprocess.TimeoutExpired as e:
        out = e.stdout.decode() if isinstance(e.stdout, bytes) else (e.stdout or "")
        return 124, out, time.time() - t0


TLC_JAR = "/opt/veriftools/tla/tla2tools.jar"


def tlc(workdir, module, cfg, workers=1, timeout=600, extra=(), heap=None):
    """Run TLC in workdir (which already contains the spec files). Returns (rc, output, wall)."""
    meta = os.path.join(workdir, "meta")
    shutil.rmtree(meta, ignore_errors=True)
    cmd = ["timeout", str(timeout), "tlc", "-workers", str(workers), "-metadir", meta, "-config", cfg] + list(extra) + [module]
    env = dict(os.environ)
    if heap:
        # cap the JVM heap (default would be 25% of RAM per JVM: concurrent checks would starve each other)
        env["JAVA_TOOL_OPTIONS"] = (env.get("JAVA_TOOL_OPTIONS", "") + " -Xmx" + heap).strip()
    return run(cmd, cwd=workdir, env=env, timeout=timeout + 30)


def tlc_retry(workdir, module, cfg, **kw):
    rc, out, wall = tlc(workdir, module, cfg, **kw)
    if rc != 0 and "states generated" not in out and "Error:" not in out:
        time.sleep(5)
        rc, out, wall = tlc(workdir, module, cfg, **kw)
    return rc, out, wall


_SPEC_SNAPSHOT = None


def spec_snapshot():
    """The specification as it was when this check started (one private copy per process): a check takes minutes and
    stages the spec several times; somebody editing spec/ meanwhile must not change what it runs half-way."""
    global _SPEC_SNAPSHOT
    if _SPEC_SNAPSHOT is None:
        d = tempfile.mkdtemp(prefix="specsnap-", dir=os.path.join(CACHE))
        for f in os.listdir(os.path.join(VERIF, "spec")):
            if f.endswith((".tla", ".cfg")):
                shutil.copy(os.path.join(VERIF, "spec", f), os.path.join(d, f))
        import atexit
        atexit.register(shutil.rmtree, d, True)
        _SPEC_SNAPSHOT = d
    return _SPEC_SNAPSHOT


def stage_spec(workdir):
    os.makedirs(workdir, exist_ok=True)
    snap = spec_snapshot()
    for f in os.listdir(snap):
        shutil.copy(os.path.join(snap, f), os.path.join(workdir, f))


TLC_STATS = re.compile(r"(\d+) states generated, (\d+) distinct states found")


def parse_tuples(out):
    """Yield python lists for TLC PrintT lines of the form <<"TAG", ...>>."""
    for line in out.splitlines():
        line = line.strip()
        if line.startswith('<<"') and line.endswith(">>"):
            body = line[2:-2]
            try:
                yield json.loads("[" + body + "]")
            except Exception:
                try:   # TLC sets {..} as lists
                    yield json.loads("[" + body.replace("{", "[").replace("}", "]") + "]")
                except Exception:
                    continue
