import hashlib, json, os, shutil, time

from .common import *

# ---------------------------------------------------------------------------
# Trace batches: which driver profiles record traces of the real code, per tier.
#   (profile, traces, events per trace, config overrides)
BATCHES = {
    "quick": [
        ("pay", 6, 90, {}),
        ("life", 8, 90, {}),
        ("auth", 8, 90, {}),
    ],
    "thorough": [
        ("pay", 60, 140, {}),
        ("life", 80, 140, {}),
        ("auth", 80, 140, {}),
    ],
}

# formulas that belong to each property = prefix match on "Cxx_"


def run_key(tier, seed, plan):
    h = hashlib.sha256()
    h.update((repo_hash() + harness_hash() + spec_hash() + tier + str(seed) + plan).encode())
    return h.hexdigest()[:24]


def record_traces(binary, outdir, tier, seed):
    """Run the drivers on the real code. Returns list of trace files and driver stats."""
    files = []
    stats = {"traces": 0, "halted": 0, "driver_wall_s": 0.0}
    for (profile, ntr, nev, cfg) in BATCHES[tier]:
        d = os.path.join(outdir, profile)
        os.makedirs(d, exist_ok=True)
        done = 0
        attempt = 0
        while done < ntr:
            # a HANG ends the process (exit 3): continue the batch in a fresh one
            cmd = [binary, "drive", "--profile", profile, "--seed", str(seed * 100 + attempt), "--traces", str(ntr - done),
                   "--n", str(nev), "--out", d]
            if cfg:
                cmd += ["--cfg", json.dumps(cfg)]
            rc, out, wall = run(cmd, timeout=1800)
            stats["driver_wall_s"] += wall
            if rc not in (0, 3):
                raise MachineryError("driver failed rc=%d: %s" % (rc, out[-2000:]))
            for line in out.splitlines():
                if line.startswith("DONE"):
                    kv = dict(x.split("=") for x in line.split()[1:])
                    done += int(kv["traces"])
                    stats["halted"] += int(kv["halted"])
            attempt += 1
            if attempt > ntr + 5:
                raise MachineryError("driver makes no progress")
        files += sorted(os.path.join(d, f) for f in os.listdir(d) if f.endswith(".ndjson"))
    stats["traces"] = len(files)
    return files, stats


def validate_traces(files, workdir, timeout=3000):
    """Concatenate traces, run TLC with Trace.tla, parse per-formula counts and violations."""
    stage_spec(workdir)
    index = []  # (file, first global line, number of lines)
    total = 0
    with open(os.path.join(workdir, "trace.ndjson"), "w") as out:
        for f in files:
            with open(f) as fh:
                lines = fh.readlines()
            index.append((f, total + 1, len(lines)))
            total += len(lines)
            out.writelines(lines)
    rc, output, wall = tlc(workdir, "Trace.tla", "Trace.cfg", workers=1, timeout=timeout)
    with open(os.path.join(workdir, "tlc.out"), "w") as fh:
        fh.write(output)
    formulas, violations, consumed = {}, [], None
    divergences, conformance = [], None
    for t in parse_tuples(output):
        if t[0] == "COUNT":
            formulas[t[1]] = {"exercised": t[2], "failed": t[3]}
        elif t[0] == "VIOLATED":
            gl = t[2]
            for (f, first, n) in index:
                if first <= gl < first + n:
                    violations.append({"formula": t[1], "trace": f, "line": gl - first + 1, "seq": t[3], "kind": t[4]})
                    break
        elif t[0] == "DIVERGED":
            gl = t[1]
            for (f, first, n) in index:
                if first <= gl < first + n:
                    divergences.append({"trace": f, "line": gl - first + 1, "seq": t[2], "kind": t[3], "what": t[4], "detail": str(t[5:])[:300]})
                    break
        elif t[0] == "CONFORMANCE":
            conformance = {"steps_checked": t[1], "diverged": t[2], "unmodelled": t[3]}
        elif t[0] == "CONSUMED":
            consumed = (t[1], t[2])
    m = TLC_STATS.search(output)
    if rc != 0 or consumed is None or consumed[0] != consumed[1] or not formulas:
        raise MachineryError("TLC trace validation did not complete (rc=%s consumed=%s): %s" % (rc, consumed, output[-3000:]))
    return {"formulas": formulas, "violations": violations, "lines": total, "tlc_wall_s": wall,
            "divergences": divergences[:50], "conformance": conformance,
            "states": int(m.group(2)) if m else total, "generated": int(m.group(1)) if m else total}


def family_run(tier, seed, use_cache=True):
    """Shared exploration for the chain-level properties (C02, C04..C16)."""
    binary, bkey = build_harness()
    key = run_key(tier, seed, "family")
    rdir = os.path.join(CACHE, "run", key)
    with Lock(os.path.join(CACHE, "run-" + key + ".lock")):
        rfile = os.path.join(rdir, "result.json")
        if use_cache and os.path.exists(rfile):
            with open(rfile) as f:
                return json.load(f)
        shutil.rmtree(rdir, ignore_errors=True)
        os.makedirs(rdir)
        files, dstats = record_traces(binary, os.path.join(rdir, "traces"), tier, seed)
        val = validate_traces(files, os.path.join(rdir, "tlc"))
        # sample: the event kinds of the first trace
        sample = []
        with open(files[0]) as fh:
            for i, line in enumerate(fh):
                r = json.loads(line)
                if r["kind"] == "event":
                    e = r["ev"]
                    sample.append({k: v for k, v in e.items() if v not in ("", 0, [], None, "ok", [""])} | {"result": r["out"]["result"]})
                if len(sample) >= 25:
                    break
        res = {"dir": rdir, "driver": dstats, "validation": val, "sample": sample, "build": bkey}
        with open(rfile, "w") as f:
            json.dump(res, f)
        prune_runs(keep=6)
        return res


def prune_runs(keep=6):
    d = os.path.join(CACHE, "run")
    if not os.path.isdir(d):
        return
    items = sorted((os.path.getmtime(os.path.join(d, x)), x) for x in os.listdir(d))
    for _, x in items[:-keep]:
        shutil.rmtree(os.path.join(d, x), ignore_errors=True)


FAMILY = ["C02", "C04", "C05", "C06", "C07", "C08", "C09", "C10", "C11", "C12", "C13", "C14", "C15", "C16"]


def run_property(pid, tier, seed, use_cache=True):
    if pid in FAMILY:
        fam = family_run(tier, seed, use_cache)
        val = fam["validation"]
        mine = {k: v for k, v in val["formulas"].items() if k.startswith(pid + "_")}
        viol = [dict(v, run=fam["dir"]) for v in val["violations"] if v["formula"].startswith(pid + "_")]
        cov = {
            "states": val["states"], "transitions": max(1, val["states"] - fam["driver"]["traces"]),
            "traces_validated_against_impl": fam["driver"]["traces"],
            "samples": [fam["sample"]],
            "formulas": mine,
            "unexercised_formulas": sorted(k for k, v in mine.items() if v["exercised"] == 0),
            "observed_steps": val["lines"] - fam["driver"]["traces"],
            "driver": fam["driver"],
            "tlc_wall_s": round(val["tlc_wall_s"], 1),
            "conformance": val.get("conformance"),
            "divergences": val.get("divergences", [])[:5],
            "explanation": "states/transitions = states of the real code observed in recorded traces and evaluated by TLC (Trace.tla)",
        }
        return {"coverage": cov, "violations": viol, "level": "model_checking",
                "assumptions": ["keeper-level driver: handlers via MsgServiceRouter in a cache context, module blockers called in app.go order",
                                "projection harness/chain/project.go is faithful"]}
    raise MachineryError("property %s has no engine yet" % pid)


# ---------------------------------------------------------------------------
def match_known(v, known):
    for k in known:
        if k.get("formula") and k["formula"] != v["formula"]:
            continue
        sig = k.get("signature", {})
        if sig.get("kind") and sig["kind"] != v.get("kind"):
            continue
        return k
    return None


def save_replay(pid, v):
    """Write the failing trace prefix (genesis + events up to the failing line) as a replay file."""
    d = os.path.join(VERIF, "replays", pid)
    os.makedirs(d, exist_ok=True)
    with open(v["trace"]) as f:
        lines = f.readlines()[: v["line"]]
    h = hashlib.sha256(("".join(lines) + v["formula"]).encode()).hexdigest()[:12]
    path = os.path.join(d, "%s-%s.ndjson" % (v["formula"], h))
    with open(path, "w") as f:
        f.writelines(lines)
    return os.path.relpath(path, VERIF)


def replay(pid, path):
    raise MachineryError("replay not built yet")
