import hashlib, json, os, shutil, time

from .common import *

# ---------------------------------------------------------------------------
# Trace batches: which driver profiles record traces of the real code, per tier.
#   (profile, traces, events per trace, config overrides)
BATCHES = {
    "quick": [
        ("pay", 6, 90, {}),
        ("life", 10, 100, {}),
        ("auth", 12, 100, {}),
        ("reward", 6, 80, {}),
        ("did", 6, 120, {}),
        ("scarce", 8, 90, {}),
        ("super", 8, 100, {}),
        ("version", 8, 100, {}),
        ("fault", 8, 100, {}),
        ("poor", 8, 100, {}),
        ("sidauth", 8, 100, {}),
        ("poorreward", 6, 100, {}),
        ("valset", 8, 100, {}),
        # the same drivers through the real ABCI boundary (signed DeliverTx, EndBlock/Commit/BeginBlock of every module in
        # app.go's order): module wiring, ante handler and baseapp rollback are part of what is observed
        ("pay", 2, 40, {"_abci": True}),
        ("life", 1, 40, {"_abci": True}),
        ("super", 2, 60, {"_abci": True}),
        ("reward", 2, 60, {"_abci": True}),
    ],
    "thorough": [
        ("reward", 60, 120, {}),
        ("did", 60, 200, {}),
        ("scarce", 80, 140, {}),
        ("super", 80, 160, {}),
        ("version", 80, 160, {}),
        ("fault", 80, 160, {}),
        ("poor", 80, 160, {}),
        ("sidauth", 80, 160, {}),
        ("poorreward", 60, 160, {}),
        ("valset", 60, 160, {}),
        ("pay", 12, 80, {"_abci": True}),
        ("life", 12, 80, {"_abci": True}),
        ("scarce", 8, 80, {"_abci": True}),
        ("super", 8, 100, {"_abci": True}),
        ("valset", 6, 100, {"_abci": True}),
        ("reward", 8, 100, {"_abci": True}),
        ("fault", 6, 80, {"_abci": True}),
        ("pay", 60, 140, {}),
        ("life", 80, 140, {}),
        ("auth", 80, 140, {}),
    ],
}

# formulas that belong to each property = prefix match on "Cxx_"


def run_key(tier, seed, plan):
    h = hashlib.sha256()
    h.update((repo_hash() + harness_hash() + spec_hash() + tier + str(seed) + plan).encode())
    return h.hexdigest()[:24]


def _record_batch(args):
    binary, outdir, seed, (profile, ntr, nev, cfg) = args
    cfg = dict(cfg)
    abci = cfg.pop("_abci", False)
    d = os.path.join(outdir, profile + ("-abci" if abci else ""))
    os.makedirs(d, exist_ok=True)
    done, attempt, halted, wall_s = 0, 0, 0, 0.0
    while done < ntr:
        # a HANG ends the process (exit 3): continue the batch in a fresh one
        cmd = [binary, "drive", "--profile", profile, "--seed", str(seed * 100 + attempt), "--traces", str(ntr - done),
               "--n", str(nev), "--out", d]
        if cfg:
            cmd += ["--cfg", json.dumps(cfg)]
        if abci:
            cmd += ["--abci"]
        rc, out, wall = run(cmd, timeout=3600)
        wall_s += wall
        if rc not in (0, 3):
            raise MachineryError("driver failed rc=%d: %s" % (rc, out[-2000:]))
        for line in out.splitlines():
            if line.startswith("DONE"):
                kv = dict(x.split("=") for x in line.split()[1:])
                done += int(kv["traces"])
                halted += int(kv["halted"])
        attempt += 1
        if attempt > ntr + 5:
            raise MachineryError("driver makes no progress")
    return sorted(os.path.join(d, f) for f in os.listdir(d) if f.endswith(".ndjson")), halted, wall_s


def record_traces(binary, outdir, tier, seed):
    """Run the drivers on the real code (one process per batch, several at a time). Returns trace files and driver stats."""
    from concurrent.futures import ThreadPoolExecutor
    files = []
    stats = {"traces": 0, "halted": 0, "driver_wall_s": 0.0}
    t0 = time.time()
    with ThreadPoolExecutor(max_workers=6) as ex:
        for fs, halted, wall in ex.map(_record_batch, [(binary, outdir, seed, b) for b in BATCHES[tier]]):
            files += fs
            stats["halted"] += halted
            stats["driver_cpu_s"] = round(stats.get("driver_cpu_s", 0.0) + wall, 1)
    stats["driver_wall_s"] = round(time.time() - t0, 1)
    stats["traces"] = len(files)
    return files, stats


GEN_CFG = {"accounts": 8, "dids": 2, "validators": 1, "balance": 10000000, "fishmen": ["a03"]}
GEN_PLAN = {"quick": (8, 3, 40), "thorough": (12, 10, 50)}   # (TLC simulate processes, behaviours each, events per behaviour)


def generate_behaviours(binary, outdir, tier, seed):
    """Spec -> code: TLC simulates MC.tla (family "gen": real constants, adversarial alphabet) from the real genesis
    state; every generated behaviour is replayed on the real code and recorded as a trace."""
    import subprocess
    procs, per, depth = GEN_PLAN[tier]
    os.makedirs(outdir, exist_ok=True)
    cfgj = json.dumps(GEN_CFG)
    t0 = time.time()
    running = []
    for i in range(procs):
        d = os.path.join(outdir, "sim%02d" % i)
        stage_spec(d)
        rc, out, _ = run([binary, "genesis", "--cfg", cfgj, "--out", os.path.join(d, "genesis.json")])
        if rc != 0:
            raise MachineryError("genesis failed: " + out[-1000:])
        cfg = open(os.path.join(d, "MC_Gen.cfg")).read().replace("MaxEvents = 40", "MaxEvents = %d" % depth)
        open(os.path.join(d, "MC_Gen.cfg"), "w").write(cfg)
        cmd = ["timeout", "1500", "tlc", "-workers", "1", "-simulate", "num=%d" % per, "-depth", str(depth + 5),
               "-seed", str(seed * 1000 + i), "-metadir", os.path.join(d, "meta"), "-config", "MC_Gen.cfg", "MC.tla"]
        running.append((d, subprocess.Popen(cmd, cwd=d, stdout=open(os.path.join(d, "tlc.out"), "w"), stderr=subprocess.STDOUT,
                                            env=dict(os.environ, JAVA_TOOL_OPTIONS="-Xmx2g"))))
    files = []
    generated = 0
    failed_gen = False
    for d, p in running:
        p.wait()
        out = open(os.path.join(d, "tlc.out")).read()
        have = [f for f in os.listdir(d) if f.startswith("beh_") and f.endswith(".json")]
        if "traces generated" not in out and not have:
            # nothing at all from this generator process (killed by the time limit on a loaded machine): the others still count
            failed_gen = True
            continue
        rd = os.path.join(d, "real")
        while True:
            rc, rout, _ = run([binary, "replay", "--in", d, "--out", rd, "--cfg", cfgj], timeout=900)
            if rc == 0:
                break
            if rc == 3:
                # a behaviour hung the real code: its trace is recorded; drop it from the input and continue the rest
                done = {f[:-7] for f in os.listdir(rd)}
                for f in sorted(os.listdir(d)):
                    if f.startswith("beh_") and f.endswith(".json") and f[:-5] in done:
                        os.rename(os.path.join(d, f), os.path.join(d, f + ".done"))
                rd2 = rd + "_more"
                os.makedirs(rd2, exist_ok=True)
                for f in os.listdir(rd):
                    os.rename(os.path.join(rd, f), os.path.join(rd2, f))
                continue
            raise MachineryError("replay failed rc=%d: %s" % (rc, rout[-1500:]))
        for base in (rd, rd + "_more"):
            if os.path.isdir(base):
                files += sorted(os.path.join(base, f) for f in os.listdir(base) if f.endswith(".ndjson"))
        generated += len([f for f in os.listdir(d) if f.startswith("beh_")])
    # (no behaviour at all - every simulator process was starved by the machine's load - is recorded, not fatal: the recorded
    # traces, the scenarios and the exhaustive families still decide)
    return files, {"tlc_generated_behaviours": generated, "gen_wall_s": round(time.time() - t0, 1), "generation_starved": not files}


MC_PLAN = {"quick": (6, 600), "thorough": (7, 1500)}   # (MaxEvents, timeout seconds)
MC_CFG = {"accounts": 8, "dids": 2, "validators": 1, "balance": 100000}


def replay_scenarios(binary, outdir):
    """The scripted histories under scenarios/ (see its README), executed on the real code (keeper level and ABCI)."""
    src = os.path.join(VERIF, "scenarios")
    if not os.path.isdir(src):
        return []
    files = []
    for mode in ("keeper", "abci"):
        d = os.path.join(outdir, mode)
        os.makedirs(d, exist_ok=True)
        cmd = [binary, "replay", "--in", src, "--out", d] + (["--abci"] if mode == "abci" else [])
        rc, out, _ = run(cmd, timeout=900)
        if rc not in (0, 3):
            raise MachineryError("scenario replay failed rc=%d: %s" % (rc, out[-1500:]))
        files += sorted(os.path.join(d, f) for f in os.listdir(d) if f.endswith(".ndjson"))
    return files


def model_check_pay(binary, workdir, tier):
    """Exhaustive TLC run of MC.tla (family "pay": real constants, compressed time) from the real genesis state.
    A spec-level counterexample is not a verdict: its events are replayed on the real code and the trace joins the others."""
    stage_spec(workdir)
    depth, tmo = MC_PLAN[tier]
    rc, out, _ = run([binary, "genesis", "--cfg", json.dumps(MC_CFG), "--out", os.path.join(workdir, "genesis.json")])
    if rc != 0:
        raise MachineryError("genesis failed: " + out[-1000:])
    cfg = open(os.path.join(workdir, "MC_Pay.cfg")).read().replace("MaxEvents = 6", "MaxEvents = %d" % depth)
    open(os.path.join(workdir, "MC_Pay.cfg"), "w").write(cfg)
    ce = os.path.join(workdir, "ce.json")
    rc, output, wall = tlc(workdir, "MC.tla", "MC_Pay.cfg", workers=16, timeout=tmo, extra=["-dumpTrace", "json", ce], heap="10g")
    open(os.path.join(workdir, "tlc.out"), "w").write(output)
    m = None
    for m in TLC_STATS.finditer(output):
        pass
    res = {"depth": depth, "states": int(m.group(2)) if m else 0, "generated": int(m.group(1)) if m else 0, "wall_s": round(wall, 1),
           "complete": "Model checking completed. No error has been found." in output, "counterexample_trace": None, "spec_violation": None}
    if "is violated" in output and os.path.exists(ce):
        d = json.load(open(ce))
        states = [x[1] for x in d["counterexample"]["state"]]
        events = states[-1]["hist"]
        res["spec_violation"] = sorted(states[-1]["bad"])
        beh = os.path.join(workdir, "cebeh")
        os.makedirs(beh, exist_ok=True)
        json.dump(events, open(os.path.join(beh, "beh_ce.json"), "w"))
        rc2, o2, _ = run([binary, "replay", "--in", beh, "--out", os.path.join(workdir, "cereal"), "--cfg", json.dumps(MC_CFG)], timeout=600)
        if rc2 not in (0, 3):
            raise MachineryError("replay of the model counterexample failed: " + o2[-1000:])
        res["counterexample_trace"] = os.path.join(workdir, "cereal", "beh_ce.ndjson")
    elif not res["complete"] and res["states"] == 0:
        # TLC did not get going (typically memory pressure from concurrent runs): the verdict comes from the real traces,
        # so this is recorded in the evidence rather than failing the check
        res["failed"] = output[-300:]
    return res


MC_FAMILIES = {  # cfg file, (quick depth, thorough depth)
    "timeout": ("MC_Timeout.cfg", (6, 9)), "did": ("MC_Did.cfg", (6, 8)), "super": ("MC_Super.cfg", (5, 7)), "reward": ("MC_Reward.cfg", (6, 7)), "auth": ("MC_Auth.cfg", (6, 7)),
    "sidauth": ("MC_SidAuth.cfg", (7, 9)),
    "sponsor": ("MC_Sponsor.cfg", (14, 16)),
    "fault": ("MC_Fault.cfg", (6, 8)),
    "migrate": ("MC_Migrate.cfg", (14, 18)),
    "version": ("MC_Version.cfg", (10, 12)),
    "debt": ("MC_Debt.cfg", (7, 8)),
    "stagger": ("MC_Stagger.cfg", (12, 14)),
    "valset": ("MC_ValSet.cfg", (4, 6)),          # three validators, two active: set rotation in the staking end-blocker
    "capacity": ("MC_Capacity.cfg", (5, 7)),      # capacity sizes around the rounding boundaries, holder of a shard and a free provider, rewards in between
    "debtreward": ("MC_Debt.cfg", (6, 7)),       # the debt family in a world WITH a block reward (6 per block): claims smaller than, equal to and larger than the debt
    "rewardage": ("MC_Reward.cfg", (6, 7)),      # the reward family from a genesis two block rewards before the subsidy's first halving (the second lands exactly on it)
}
MC_FAMILY_CFG = {"accounts": 8, "dids": 2, "validators": 2, "balance": 10000000, "blockReward": 840}


def liveness_check(binary, workdir, tier):
    """C12 as a temporal property: TLC checks <>[]AllSettled on spec/Live.tla under weak fairness of the block step (time
    passes, no provider is obliged to do anything), complete state space, no constraint. A design-level result: the
    transition function is the one every recorded step of the real code is compared with. Also the witness that the
    property is not vacuous: []AllSettled must be violated (orders do start unsettled)."""
    stage_spec(workdir)
    rc, o, _ = run([binary, "genesis", "--cfg", json.dumps(MC_CFG), "--out", os.path.join(workdir, "genesis.json")])
    if rc != 0:
        raise MachineryError("genesis failed: " + o[-1000:])
    cfgs = ["Live_quick.cfg"] if tier == "quick" else ["Live.cfg", "Live_actions.cfg", "Live_upd.cfg"]
    runs = []
    for cfgfile in cfgs:
        rc, out, wall = tlc(workdir, "Live.tla", cfgfile, workers=6, timeout=600 if tier == "quick" else 3000, heap="8g")
        open(os.path.join(workdir, "tlc.live.%s.out" % cfgfile), "w").write(out)
        m = None
        for m in TLC_STATS.finditer(out):
            pass
        runs.append({"config": cfgfile, "states": int(m.group(2)) if m else 0, "generated": int(m.group(1)) if m else 0, "wall_s": round(wall, 1),
                     "holds": "Model checking completed. No error has been found." in out, "violated": "Temporal properties" in out and "violated" in out})
    res = {"properties": "EventuallySettled == <>[]AllSettled, EventuallyGone == <>[]AllGone, under WF(TickStep) only", "runs": runs,
           "states": sum(r["states"] for r in runs), "holds": all(r["holds"] for r in runs), "violated": any(r["violated"] for r in runs),
           "incomplete": [r["config"] for r in runs if not r["holds"] and not r["violated"]]}
    # vacuity witness: the same model with the safety version of the goal as invariant must fail at once
    wit = open(os.path.join(workdir, "Live_quick.cfg")).read().replace("PROPERTY EventuallySettled", "INVARIANT AllSettled")
    open(os.path.join(workdir, "Live_witness.cfg"), "w").write(wit)
    rc2, out2, _ = tlc(workdir, "Live.tla", "Live_witness.cfg", workers=1, timeout=300, heap="2g")
    res["witness_unsettled_states_exist"] = "Invariant AllSettled is violated" in out2
    return res


def family_gcfg(fam):
    """The world (harness configuration) an exhaustive family starts from."""
    gcfg = MC_CFG if fam in ("timeout", "sponsor", "migrate", "version", "debt", "stagger") else MC_FAMILY_CFG   # long time jumps: no block reward there
    if fam == "rewardage":
        gcfg = dict(MC_FAMILY_CFG, blockReward=2520, rewardBase="199999999994960")   # two block rewards before the halving point: the second lands exactly on it
    if fam == "debtreward":
        gcfg = dict(MC_CFG, blockReward=6)                 # small: the accumulator stays within 32 bits over the family's time jumps
    if fam == "fault":
        gcfg = GEN_CFG                                     # a03 is a fishman
    if fam == "valset":
        gcfg = dict(MC_FAMILY_CFG, validators=3, maxValidators=2, vstorThreshold=2000000)
    if fam == "sidauth":
        gcfg = dict(MC_FAMILY_CFG, accounts=12)           # a09..a11 create and are bound to the sid DIDs
    return gcfg


FAMSIM_PLAN = {"quick": (2, 4), "thorough": (12, 8)}   # (behaviours per family, events beyond the family's exhaustive depth)


def _simulate_family(args):
    """Spec -> code for one exhaustive family: TLC walks the family's own alphabet at random, deeper than the exhaustive run
    goes; the behaviours are replayed on the real code."""
    import re as _re
    binary, outdir, tier, seed, fam, cfgfile, depths = args
    per, beyond = FAMSIM_PLAN[tier]
    d = os.path.join(outdir, fam)
    stage_spec(d)
    gcfg = json.dumps(family_gcfg(fam))
    rc, o, _ = run([binary, "genesis", "--cfg", gcfg, "--out", os.path.join(d, "genesis.json")])
    if rc != 0:
        raise MachineryError("genesis failed: " + o[-1000:])
    cfg0 = open(os.path.join(d, cfgfile)).read()
    cfg0 = _re.sub(r"Family = \"\w+\"", 'Family = "%s"' % {"rewardage": "reward", "debtreward": "debt"}.get(fam, fam), cfg0)
    cfg0 = "\n".join(l for l in cfg0.splitlines() if not l.startswith(("INVARIANT", "CONSTRAINT", "VIEW"))) + "\nCONSTRAINT DumpBehaviour\n"
    have = []
    # a behaviour is written when a walk reaches the depth; the life cycles of some families end earlier (everything is
    # terminated or refunded, nothing is enabled any more): shorter walks are asked for then
    for depth in (depths[1] + beyond, depths[1], depths[0], 4):
        open(os.path.join(d, "MC_Sim.cfg"), "w").write(_re.sub(r"MaxEvents = \d+", "MaxEvents = %d" % depth, cfg0))
        rc, out, _ = run(["timeout", "600", "tlc", "-workers", "1", "-simulate", "num=%d" % (per * 3), "-depth", str(depth + 5), "-seed", str(seed * 977 + 5),
                          "-metadir", os.path.join(d, "meta%d" % depth), "-config", "MC_Sim.cfg", "MC.tla"], cwd=d,
                         env=dict(os.environ, JAVA_TOOL_OPTIONS="-Xmx2g"), timeout=700)
        have = sorted(f for f in os.listdir(d) if f.startswith("beh_") and f.endswith(".json"))
        if have:
            break
    for f in have[per:]:
        os.remove(os.path.join(d, f))
    have = have[:per]
    if not have:
        return fam, [], 0     # (a starved process contributes nothing)
    rd = os.path.join(d, "real")
    rc, rout, _ = run([binary, "replay", "--in", d, "--out", rd, "--cfg", gcfg], timeout=900)
    if rc not in (0, 3):
        raise MachineryError("replay of family %s behaviours failed rc=%d: %s" % (fam, rc, rout[-1500:]))
    return fam, sorted(os.path.join(rd, f) for f in os.listdir(rd) if f.endswith(".ndjson")), len(have)


def simulate_families(binary, outdir, tier, seed):
    from concurrent.futures import ThreadPoolExecutor
    os.makedirs(outdir, exist_ok=True)
    jobs = [(binary, outdir, tier, seed, fam, cfgfile, depths) for fam, (cfgfile, depths) in MC_FAMILIES.items()]
    files, per_family = [], {}
    with ThreadPoolExecutor(max_workers=5) as ex:
        for fam, fs, n in ex.map(_simulate_family, jobs):
            files += fs
            per_family[fam] = n
    return files, {"family_behaviours": per_family}


def _mc_family(args):
    binary, workdir, tier, fam, cfgfile, depths = args
    d = os.path.join(workdir, fam)
    stage_spec(d)
    gcfg = family_gcfg(fam)
    rc, o, _ = run([binary, "genesis", "--cfg", json.dumps(gcfg), "--out", os.path.join(d, "genesis.json")])
    if rc != 0:
        raise MachineryError("genesis failed: " + o[-1000:])
    depth = depths[0] if tier == "quick" else depths[1]
    import re as _re
    cfg = _re.sub(r"MaxEvents = \d+", "MaxEvents = %d" % depth, open(os.path.join(d, cfgfile)).read())
    open(os.path.join(d, cfgfile), "w").write(cfg)
    ce = os.path.join(d, "ce.json")
    rc, output, wall = tlc(d, "MC.tla", cfgfile, workers=6, timeout=900 if tier == "quick" else 3000, extra=["-dumpTrace", "json", ce], heap="6g")
    open(os.path.join(d, "tlc.out"), "w").write(output)
    m = None
    for m in TLC_STATS.finditer(output):
        pass
    r = {"depth": depth, "states": int(m.group(2)) if m else 0, "generated": int(m.group(1)) if m else 0, "wall_s": round(wall, 1),
         "complete": "Model checking completed. No error has been found." in output, "counterexample_trace": None, "spec_violation": None}
    if "is violated" in output and os.path.exists(ce):
        dd = json.load(open(ce))
        states = [x[1] for x in dd["counterexample"]["state"]]
        r["spec_violation"] = sorted(states[-1]["bad"])
        beh = os.path.join(d, "cebeh")
        os.makedirs(beh, exist_ok=True)
        json.dump(states[-1]["hist"], open(os.path.join(beh, "beh_ce_%s.json" % fam), "w"))
        rc2, o2, _ = run([binary, "replay", "--in", beh, "--out", os.path.join(d, "cereal"), "--cfg", json.dumps(gcfg)], timeout=600)
        if rc2 not in (0, 3):
            raise MachineryError("replay of the model counterexample failed: " + o2[-1000:])
        r["counterexample_trace"] = os.path.join(d, "cereal", "beh_ce_%s.ndjson" % fam)
    elif not r["complete"] and r["states"] == 0:
        r["failed"] = output[-300:]
    return fam, r


def model_check_families(binary, workdir, tier):
    """Exhaustive TLC runs of the further MC.tla families from the real genesis state (three at a time)."""
    from concurrent.futures import ThreadPoolExecutor
    spec_snapshot()
    jobs = [(binary, workdir, tier, fam, cfgfile, depths) for fam, (cfgfile, depths) in MC_FAMILIES.items()]
    with ThreadPoolExecutor(max_workers=3) as ex:
        return dict(ex.map(_mc_family, jobs))


def _validate_chunk(args):
    files, workdir, timeout = args
    stage_spec(workdir)
    index = []  # (file, first global line, number of lines)
    total = 0
    with open(os.path.join(workdir, "trace.ndjson"), "w") as out:
        for f in files:
            with open(f) as fh:
                lines = fh.readlines()
            index.append((f, total + 1, len(lines)))
            total += len(lines)
            out.writelines(lines)
    # (conformance evaluates Chain!Apply on observed states: on modified code that can be arbitrarily expensive or not
    # terminate - it gets a bounded time, then the property formulas alone are evaluated)
    rc, output, wall = tlc(workdir, "Trace.tla", "Trace.cfg", workers=1, timeout=min(timeout, 900), heap="4g")
    conformance_aborted = False
    if rc != 0 and "CONSUMED" not in output:
        # evaluating Chain!Apply on an observed state crashed TLC (a state the specification has no meaning for, e.g. on
        # modified code): conformance is given up for this chunk, the property formulas are still evaluated
        with open(os.path.join(workdir, "tlc.conformance-aborted.out"), "w") as fh:
            fh.write(output)
        conformance_aborted = True
        rc, output, wall = tlc(workdir, "Trace.tla", "Trace_props.cfg", workers=1, timeout=timeout, heap="4g")
    with open(os.path.join(workdir, "tlc.out"), "w") as fh:
        fh.write(output)
    os.remove(os.path.join(workdir, "trace.ndjson"))
    formulas, violations, consumed = {}, [], None
    divergences, conformance = [], None

    def locate(gl):
        for (f, first, n) in index:
            if first <= gl < first + n:
                return f, gl - first + 1
        return None, 0

    for t in parse_tuples(output):
        if t[0] == "COUNT":
            formulas[t[1]] = {"exercised": t[2], "failed": t[3]}
        elif t[0] == "VIOLATED":
            f, ln = locate(t[2])
            if f:
                violations.append({"formula": t[1], "trace": f, "line": ln, "seq": t[3], "kind": t[4]})
        elif t[0] == "DIVERGED":
            f, ln = locate(t[1])
            if f:
                divergences.append({"trace": f, "line": ln, "seq": t[2], "kind": t[3], "what": t[4], "detail": str(t[5:])[:300]})
        elif t[0] == "CONFORMANCE":
            conformance = {"steps_checked": t[1], "diverged": t[2], "unmodelled": t[3]}
        elif t[0] == "CONSUMED":
            consumed = (t[1], t[2])
    m = TLC_STATS.search(output)
    if rc != 0 or consumed is None or consumed[0] != consumed[1] or not formulas:
        return {"error": "TLC trace validation did not complete (rc=%s consumed=%s): %s" % (rc, consumed, output[-3000:])}
    if conformance_aborted:
        conformance = {"steps_checked": 0, "diverged": 0, "unmodelled": total}
        divergences.append({"trace": files[0] if files else "", "line": 0, "seq": 0, "kind": "-", "what": "conformance aborted", "detail": "TLC could not evaluate Chain!Apply on an observed state of this chunk"})
    return {"formulas": formulas, "violations": violations, "lines": total, "tlc_wall_s": wall,
            "divergences": divergences, "conformance": conformance,
            "states": int(m.group(2)) if m else total, "generated": int(m.group(1)) if m else total}


def validate_traces(files, workdir, timeout=3000, chunk=50, parallel=4):
    """Run TLC with Trace.tla over all traces (in chunks of `chunk` traces, `parallel` TLC processes at a time);
    merge per-formula counts, violations and conformance."""
    from concurrent.futures import ThreadPoolExecutor
    spec_snapshot()   # taken once, before the worker threads stage it
    chunks = [files[i:i + chunk] for i in range(0, len(files), chunk)] or [[]]
    jobs = [(c, os.path.join(workdir, "chunk%03d" % i), timeout) for i, c in enumerate(chunks)]
    t0 = time.time()
    with ThreadPoolExecutor(max_workers=parallel) as ex:
        results = list(ex.map(_validate_chunk, jobs))
    for r in results:
        if "error" in r:
            raise MachineryError(r["error"])
    out = {"formulas": {}, "violations": [], "lines": 0, "tlc_wall_s": time.time() - t0, "divergences": [],
           "conformance": {"steps_checked": 0, "diverged": 0, "unmodelled": 0}, "states": 0, "generated": 0}
    for r in results:
        for k, v in r["formulas"].items():
            o = out["formulas"].setdefault(k, {"exercised": 0, "failed": 0})
            o["exercised"] += v["exercised"]
            o["failed"] += v["failed"]
        out["violations"] += r["violations"]
        out["divergences"] += r["divergences"]
        for k in ("lines", "states", "generated"):
            out[k] += r[k]
        if r["conformance"]:
            for k in out["conformance"]:
                out["conformance"][k] += r["conformance"][k]
    out["divergences"] = out["divergences"][:50]
    return out


def family_run(tier, seed, use_cache=True):
    """Shared exploration for the chain-level properties (C02, C04..C16)."""
    binary, bkey = build_harness()
    key = run_key(tier, seed, "family")
    rdir = os.path.join(CACHE, "run", key)
    with Lock(os.path.join(CACHE, "run-" + key + ".lock")):
        rfile = os.path.join(rdir, "result.json")
        if use_cache and os.path.exists(rfile):
            with open(rfile) as f:
                return json.load(f)
        shutil.rmtree(rdir, ignore_errors=True)
        os.makedirs(rdir)
        t_start = time.time()
        files, dstats = record_traces(binary, os.path.join(rdir, "traces"), tier, seed)
        gfiles, gstats = generate_behaviours(binary, os.path.join(rdir, "gen"), tier, seed)
        dstats.update(gstats)
        dstats["traces"] += len(gfiles)
        files = files + gfiles
        ffiles, fstats = simulate_families(binary, os.path.join(rdir, "famsim"), tier, seed)
        dstats.update(fstats)
        dstats["traces"] += len(ffiles)
        files = files + ffiles
        sfiles = replay_scenarios(binary, os.path.join(rdir, "scenarios"))
        dstats["scenarios"] = len(sfiles)
        dstats["traces"] += len(sfiles)
        files = files + sfiles
        mc = model_check_pay(binary, os.path.join(rdir, "mc"), tier)
        if mc["counterexample_trace"]:
            files.append(mc["counterexample_trace"])
            dstats["traces"] += 1
        fams = model_check_families(binary, os.path.join(rdir, "mcf"), tier)
        for r in fams.values():
            if r["counterexample_trace"]:
                files.append(r["counterexample_trace"])
                dstats["traces"] += 1
        val = validate_traces(files, os.path.join(rdir, "tlc"))
        val["mc"] = mc
        val["mc_families"] = fams
        val["liveness"] = liveness_check(binary, os.path.join(rdir, "live"), tier)
        # sample: the event kinds of the first trace
        sample = []
        with open(files[0]) as fh:
            for i, line in enumerate(fh):
                r = json.loads(line)
                if r["kind"] == "event":
                    e = r["ev"]
                    sample.append({k: v for k, v in e.items() if v not in ("", 0, [], None, "ok", [""])} | {"result": r["out"]["result"]})
                if len(sample) >= 25:
                    break
        res = {"dir": rdir, "driver": dstats, "validation": val, "sample": sample, "build": bkey, "wall_s": round(time.time() - t_start, 1)}
        with open(rfile, "w") as f:
            json.dump(res, f)
        prune_runs(keep=6)
        return res


def prune_runs(keep=6):
    """Remove cached runs older than 3 hours (beyond the newest `keep`): never one a concurrent check may be reading."""
    d = os.path.join(CACHE, "run")
    if not os.path.isdir(d):
        return
    now = time.time()
    items = sorted((os.path.getmtime(os.path.join(d, x)), x) for x in os.listdir(d))
    for mt, x in items[:-keep]:
        if now - mt > 3 * 3600:
            shutil.rmtree(os.path.join(d, x), ignore_errors=True)


SEL_PLAN = {"quick": 3000, "thorough": 120000}


def selection_run(tier, seed, use_cache=True):
    """Function-level engine for C15 / C02: real RandomSP / RandomIndex calls checked by TLC (SelTrace.tla)."""
    binary, bkey = build_harness()
    key = run_key(tier, seed, "selection")
    rdir = os.path.join(CACHE, "run", key)
    with Lock(os.path.join(CACHE, "run-" + key + ".lock")):
        rfile = os.path.join(rdir, "result.json")
        if use_cache and os.path.exists(rfile):
            return json.load(open(rfile))
        shutil.rmtree(rdir, ignore_errors=True)
        os.makedirs(rdir)
        stage_spec(rdir)
        cases_file = os.path.join(rdir, "selection.ndjson")
        total, hangs, attempt = 0, 0, 0
        rc, out, wall = run([binary, "selection", "--n", str(SEL_PLAN[tier]), "--seed", str(seed), "--out", cases_file], timeout=1800)
        if rc != 0:
            raise MachineryError("selection driver failed: " + out[-1500:])
        rc, output, twall = tlc(rdir, "SelTrace.tla", "SelTrace.cfg", workers=1, timeout=1800, heap="6g")
        open(os.path.join(rdir, "tlc.out"), "w").write(output)
        formulas, violations, consumed = {}, [], None
        for t in parse_tuples(output):
            if t[0] == "COUNT":
                formulas[t[1]] = {"exercised": t[2], "failed": t[3]}
            elif t[0] == "VIOLATED":
                violations.append({"formula": t[1], "trace": cases_file, "line": t[2], "seq": t[2], "kind": t[4], "single_line": True})
            elif t[0] == "CONSUMED":
                consumed = (t[1], t[2])
        if rc != 0 or consumed is None or consumed[0] != consumed[1]:
            raise MachineryError("TLC selection validation did not complete: " + output[-2000:])
        samples = [json.loads(l) for l in open(cases_file).readlines()[400:403]]
        res = {"dir": rdir, "cases": consumed[1], "formulas": formulas, "violations": violations, "samples": samples,
               "wall": round(wall + twall, 1)}
        json.dump(res, open(rfile, "w"))
        return res


def replicas_engine(tier, seed, use_cache=True):
    from . import replicas
    binary, bkey = build_harness()
    key = run_key(tier, seed, "replicas")
    rdir = os.path.join(CACHE, "run", key)
    with Lock(os.path.join(CACHE, "run-" + key + ".lock")):
        rfile = os.path.join(rdir, "result.json")
        if use_cache and os.path.exists(rfile):
            return json.load(open(rfile))
        shutil.rmtree(rdir, ignore_errors=True)
        os.makedirs(rdir)
        res = replicas.replicas_run(binary, rdir, tier, seed)
        res["dir"] = rdir
        json.dump(res, open(rfile, "w"))
        return res


FAMILY = ["C02", "C04", "C05", "C06", "C07", "C08", "C09", "C10", "C11", "C12", "C13", "C14", "C15", "C16", "C17", "C19", "C20"]


def run_property(pid, tier, seed, use_cache=True):
    if pid in FAMILY:
        fam = family_run(tier, seed, use_cache)
        val = fam["validation"]
        mine = {k: v for k, v in val["formulas"].items() if k.startswith(pid + "_")}
        viol = [dict(v, run=fam["dir"]) for v in val["violations"] if v["formula"].startswith(pid + "_")]
        if pid in ("C15", "C02"):
            sel = selection_run(tier, seed, use_cache)
            extra = {k: v for k, v in sel["formulas"].items() if k.startswith(pid + "_") or k.startswith("Conf_")}
            mine.update(extra)
            # exact conformance with the specification's RandomSP (Conf_*) is evidence, not a verdict: only property formulas decide
            viol += [v for v in sel["violations"] if v["formula"].startswith(pid + "_")]
        if pid == "C12" and (val.get("liveness") or {}).get("violated"):
            # the DESIGN admits an order that is never settled: a finding about the specification, to be looked at by hand; only
            # states observed on the real code are verdicts
            raise MachineryError("spec/Live.tla: TLC reports a counterexample to EventuallySettled (see %s/live/tlc.live.*.out)" % fam["dir"])
        mc = val.get("mc") or {"states": 0, "generated": 0}
        fams = val.get("mc_families") or {}
        mstates = mc["states"] + sum(r["states"] for r in fams.values())
        mtrans = mc["generated"] + sum(r["generated"] for r in fams.values())
        cov = {
            "states": mstates + val["states"], "transitions": mtrans + max(1, val["states"] - fam["driver"]["traces"]),
            "model_states_exhaustive": mstates, "model_transitions_exhaustive": mtrans, "model_check": dict(fams, pay=mc),
            "temporal_check": val.get("liveness"),
            "observed_states": val["states"],
            "traces_validated_against_impl": fam["driver"]["traces"],
            "samples": [fam["sample"]],
            "formulas": mine,
            "unexercised_formulas": sorted(k for k, v in mine.items() if v["exercised"] == 0),
            "observed_steps": val["lines"] - fam["driver"]["traces"],
            "driver": fam["driver"],
            "tlc_wall_s": round(val["tlc_wall_s"], 1),
            "conformance": val.get("conformance"),
            "divergences": val.get("divergences", [])[:5],
            "explanation": "states/transitions = states of the bounded model MC.tla explored exhaustively by TLC (all catalogue formulas as invariants) "
                           "+ states of the real code observed in recorded traces and evaluated by TLC (Trace.tla: formulas and conformance with Chain!Apply)",
        }
        return {"coverage": cov, "violations": viol, "level": "model_checking", "engine_wall_s": fam.get("wall_s", 0),
                "assumptions": ["keeper-level driver: handlers via MsgServiceRouter in a cache context, module blockers called in app.go order",
                                "projection harness/chain/project.go is faithful"]}
    if pid in ("C01", "C03", "C18"):
        rep = replicas_engine(tier, seed, use_cache)
        pref = pid + "_"
        viol = []
        for v in rep["violations"]:
            if v["formula"].startswith(pref):
                sp = os.path.join(rep["dir"], v["script"] + ".script.json")
                viol.append({"formula": v["formula"], "trace": sp, "line": 0, "seq": 0, "kind": "replicas", "detail": v["detail"],
                             "whole_file": True, "fields": v.get("fields")})
        mc = rep["model"]
        cov = {
            "states": sum(x["states"] for x in mc.values()), "transitions": sum(x["generated"] for x in mc.values()),
            "traces_validated_against_impl": len(rep["schedules"]) + len(rep["c18"]),
            "samples": (rep["schedules"][:4] if pid != "C18" else rep["c18"][:4]) or [{"note": "no schedule"}],
            "model": mc, "schedules_run": len(rep["schedules"]), "schedules_agreeing": sum(1 for x in rep["schedules"] if x["agree"]),
            "export_points": rep["c18"], "wall_s": rep["wall_s"],
            "random_streams": rep.get("streams", []), "blocks_compared": rep.get("blocks_compared", 0),
            "explanation": "Replicas.tla model-checked (implemented design: Agreement holds; hazard design: violated as witness); "
                           "TLC-generated schedules executed on two real ABCI replicas (new process per restart) and compared hash by hash; "
                           "random_streams: driver-made block streams on three replicas (plain / with non-consensus Simulate+CheckTx noise / with restarts)",
        }
        return {"coverage": cov, "violations": viol, "level": "model_checking", "engine_wall_s": rep.get("wall_s", 0),
                "assumptions": ["replica B differs from A only by the schedule's non-consensus calls, restarts and lateness",
                                "map-iteration nondeterminism is sampled by repeated runs, not enumerated"]}
    raise MachineryError("property %s has no engine yet" % pid)


# ---------------------------------------------------------------------------
def match_known(v, known):
    """A violation is a known finding only if it has the finding's formula AND its specific signature:
    the state fields that differ (fields ⊆ signature.fields) and/or the event fields of the failing step."""
    for k in known:
        if k.get("formula") != v["formula"]:
            continue
        sig = k.get("signature", {})
        if "fields" in sig:
            if not v.get("fields") or not set(v["fields"]) <= set(sig["fields"]):
                continue
        if "kind" in sig and v.get("kind") != sig["kind"]:     # the kind of the failing step
            continue
        if "ev" in sig:
            ev = v.get("ev") or {}
            if any(ev.get(f) != val for f, val in sig["ev"].items()):
                continue
        if not sig:
            continue
        return k
    return None


def save_replay(pid, v):
    """Write the failing trace prefix (genesis + events up to the failing line) as a replay file."""
    d = os.path.join(VERIF, "replays", pid)
    os.makedirs(d, exist_ok=True)
    with open(v["trace"]) as f:
        lines = f.readlines()
        lines = lines if v.get("whole_file") else [lines[v["line"] - 1]] if v.get("single_line") else lines[: v["line"]]
    h = hashlib.sha256(("".join(lines) + v["formula"]).encode()).hexdigest()[:12]
    path = os.path.join(d, "%s-%s.ndjson" % (v["formula"], h))
    with open(path, "w") as f:
        f.writelines(lines)
    return os.path.relpath(path, VERIF)


def replay(pid, path):
    """Re-execute a replay file on the CURRENT tree and re-evaluate the property's formulas on the new observation."""
    binary, _ = build_harness()
    path = path if os.path.isabs(path) else os.path.join(VERIF, path)
    work = os.path.join(CACHE, "replay-" + hashlib.sha256(path.encode()).hexdigest()[:10])
    shutil.rmtree(work, ignore_errors=True)
    os.makedirs(work)
    first = open(path).readline()
    rec = json.loads(first) if first.strip().startswith("{") else None
    if rec is not None and rec.get("kind") == "genesis":
        out = os.path.join(work, "replayed.ndjson")
        rc, o, _ = run([binary, "replay", "--in", path, "--out", out], timeout=900)
        if rc not in (0, 3):
            raise MachineryError("replay failed: " + o[-1500:])
        val = validate_traces([out], os.path.join(work, "tlc"))
        bad = [v for v in val["violations"] if v["formula"].startswith(pid + "_")]
    elif rec is not None and rec.get("kind") in ("sel", "ri", "age"):
        raise MachineryError("selection cases are re-run by the check itself (bin/check %s): the case is in %s" % (pid, path))
    else:
        raise MachineryError("replica scripts are re-run by the check itself (bin/check %s); the script is %s" % (pid, path))
    for v in bad[:5]:
        print("VIOLATION property=%s replay=%s formula=%s line=%d" % (pid, os.path.relpath(path, VERIF), v["formula"], v["line"]))
    log("replay %s: %d formula violation(s) of %s on the current tree" % (os.path.basename(path), len(bad), pid))
    return 1 if bad else 0
